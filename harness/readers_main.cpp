// C20 (b): reader threads perform const operations on shared const containers while a writer mutates a distinct
// container.  Results are recorded per thread (own sequence numbers, no shared recorder state while the threads
// run) and written out after the join.  Built with -fsanitize=thread: a data race aborts the run (exit 66).
#include <amc/fixedcapacityvector.hpp>
#include <amc/flatset.hpp>
#include <amc/smallset.hpp>
#include <amc/smallvector.hpp>
#include <amc/vector.hpp>

#include <atomic>
#include <stdexcept>
#include <cstdio>
#include <cstdlib>
#include <string>
#include <thread>
#include <vector>

struct Rec {
  int k, seq, arg;
  const char *op;
  long res;
};

template <class C>
static long walk(const C &c) {
  long s = 0;
  for (auto it = c.begin(); it != c.end(); ++it) s += *it;
  return s;
}
template <class C>
static long rwalk(const C &c) {
  long s = 0;
  for (auto it = c.rbegin(); it != c.rend(); ++it) s += *it;
  return s;
}

template <class V>
static void readVec(int k, const V &v, const V &other, int kOther, std::vector<Rec> &out, int rounds, int offset) {
  int seq = 0;
  for (int r = 0; r < rounds; ++r) {
    out.push_back(Rec{k, seq++, 0, "size", static_cast<long>(v.size())});
    out.push_back(Rec{k, seq++, 0, "sum", walk(v)});
    out.push_back(Rec{k, seq++, 0, "rsum", rwalk(v)});
    for (size_t i = 0; i < v.size(); ++i) {
      size_t j = (i + static_cast<size_t>(offset)) % v.size();
      out.push_back(Rec{k, seq++, static_cast<int>(j), "index", static_cast<long>(v[static_cast<typename V::size_type>(j)])});
    }
    for (size_t i = 0; i <= v.size(); ++i) {  // at(i), i == size() included: the exception path is a const operation too
      long res;
      try {
        res = static_cast<long>(v.at(static_cast<typename V::size_type>(i)));
      } catch (const std::out_of_range &e) {
        res = e.what() != nullptr ? -1L : -2L;
      }
      out.push_back(Rec{k, seq++, static_cast<int>(i), "at", res});
    }
    out.push_back(Rec{k, seq++, 0, "eqself", v == v ? 1L : 0L});
    out.push_back(Rec{k, seq++, kOther, "eqother", v == other ? 1L : 0L});
    V copy(v);
    out.push_back(Rec{k, seq++, 0, "copysum", walk(copy)});
  }
}
template <class S>
static void readSet(int k, const S &s, const S &other, int kOther, std::vector<Rec> &out, int rounds, int offset) {
  int seq = 0;
  for (int r = 0; r < rounds; ++r) {
    out.push_back(Rec{k, seq++, 0, "size", static_cast<long>(s.size())});
    out.push_back(Rec{k, seq++, 0, "sum", walk(s)});
    out.push_back(Rec{k, seq++, 0, "rsum", rwalk(s)});
    for (int key = 0; key < 12; ++key) {
      int q = (key + offset) % 12;
      out.push_back(Rec{k, seq++, q, "contains", s.count(q) ? 1L : 0L});
      auto it = s.find(q);
      out.push_back(Rec{k, seq++, q, "find", it == s.end() ? -1L : static_cast<long>(*it)});
    }
    out.push_back(Rec{k, seq++, 0, "eqself", s == s ? 1L : 0L});
    out.push_back(Rec{k, seq++, kOther, "eqother", s == other ? 1L : 0L});
    S copy(s);
    out.push_back(Rec{k, seq++, 0, "copysum", walk(copy)});
  }
}

template <class C>
static std::string elemsJson(const C &c) {
  std::string s = "[";
  bool first = true;
  for (auto it = c.begin(); it != c.end(); ++it) {
    s += (first ? "" : ",") + std::to_string(*it);
    first = false;
  }
  return s + "]";
}

int main(int argc, char **argv) {
  if (argc < 2) return 2;
  int nthreads = argc > 2 ? atoi(argv[2]) : 4;
  int rounds = argc > 3 ? atoi(argv[3]) : 20;
  // shared const containers (numbered 1..): two of each kind so that comparisons have a const partner
  const amc::vector<int> c1{5, 3, 9, 1}, c2{5, 3, 9};
  const amc::SmallVector<int, 4> c3{4, 4, 2}, c4{4, 4, 2};            // inline
  const amc::SmallVector<int, 2> c5{7, 8, 9, 10, 11}, c6{7, 8};       // heap / inline full
  const amc::FixedCapacityVector<int, 6> c7{1, 2, 3, 4, 5, 6}, c8{6};
  const amc::FlatSet<int> c9{8, 2, 6, 4}, c10{2, 4, 6, 8};
  const amc::SmallSet<int, 4> c11{3, 1, 2}, c12{1, 2, 3};              // inline state
  const amc::SmallSet<int, 2> c13{9, 7, 5, 3, 1}, c14{9, 7};          // large state / inline full
  const amc::SmallSet<int, 3, std::less<int>, amc::allocator<int>, amc::FlatSet<int>> c15{1, 5, 9, 11, 4}, c16{4};
  std::vector<std::vector<Rec>> recs(static_cast<size_t>(nthreads));
  std::atomic<bool> go(false);
  std::vector<std::thread> th;
  for (int t = 0; t < nthreads; ++t) {
    th.emplace_back([&, t] {
      while (!go.load()) {
      }
      std::vector<Rec> &out = recs[static_cast<size_t>(t)];
      readVec(1, c1, c2, 2, out, rounds, t);
      readVec(3, c3, c4, 4, out, rounds, t);
      readVec(5, c5, c6, 6, out, rounds, t);
      readVec(7, c7, c8, 8, out, rounds, t);
      readSet(9, c9, c10, 10, out, rounds, t);
      readSet(11, c11, c12, 12, out, rounds, t);
      readSet(13, c13, c14, 14, out, rounds, t);
      readSet(15, c15, c16, 16, out, rounds, t);
    });
  }
  // the writer mutates DISTINCT containers of the same types
  std::thread writer([&] {
    while (!go.load()) {
    }
    amc::vector<int> w1;
    amc::SmallVector<int, 4> w2;
    amc::FlatSet<int> w3;
    amc::SmallSet<int, 4> w4;
    for (int i = 0; i < 200 * rounds; ++i) {
      w1.push_back(i);
      w2.push_back(i);
      w3.insert(i % 37);
      w4.insert(i % 7);
      try {
        (void)w1.at(w1.size());
      } catch (const std::out_of_range &) {
      }
      if (i % 16 == 15) {
        w1.clear();
        w2.clear();
        w2.shrink_to_fit();
        w4.clear();
      }
    }
  });
  go.store(true);
  for (auto &x : th) x.join();
  writer.join();
  FILE *out = fopen(argv[1], "w");
  if (!out) return 2;
  std::string cfg = "{\"e\":\"config\",\"name\":\"readers\",\"threads\":" + std::to_string(nthreads) + ",\"containers\":[";
  cfg += "{\"set\":false,\"elems\":" + elemsJson(c1) + "},{\"set\":false,\"elems\":" + elemsJson(c2) + "},{\"set\":false,\"elems\":" + elemsJson(c3) + "},{\"elems\":" + elemsJson(c4) +
         "},{\"set\":false,\"elems\":" + elemsJson(c5) + "},{\"set\":false,\"elems\":" + elemsJson(c6) + "},{\"set\":false,\"elems\":" + elemsJson(c7) + "},{\"elems\":" + elemsJson(c8) +
         "},{\"set\":true,\"elems\":" + elemsJson(c9) + "},{\"set\":true,\"elems\":" + elemsJson(c10) + "},{\"set\":true,\"elems\":" + elemsJson(c11) + "},{\"elems\":" + elemsJson(c12) +
         "},{\"set\":true,\"elems\":" + elemsJson(c13) + "},{\"set\":true,\"elems\":" + elemsJson(c14) + "},{\"set\":true,\"elems\":" + elemsJson(c15) + "},{\"set\":true,\"elems\":" + elemsJson(c16) + "}]}";
  fprintf(out, "%s\n", cfg.c_str());
  for (int t = 0; t < nthreads; ++t)
    for (const Rec &r : recs[static_cast<size_t>(t)])
      fprintf(out, "{\"t\":%d,\"seq\":%d,\"k\":%d,\"op\":\"%s\",\"arg\":%d,\"res\":%ld}\n", t + 1, r.seq, r.k, r.op, r.arg, r.res);
  fclose(out);
  return 0;
}
