// C15: executes labels of MemAlgo.tla on the real amc:: memory algorithms and records what it observes.
// C++11-clean on purpose: it is built under -std=c++11, 14, 17 and 20 (different implementations are selected).
#include <amc/memory.hpp>
#include <amc/type_traits.hpp>

#include <cstdio>
#include <initializer_list>
#include <cstdlib>
#include <cstring>
#include <exception>
#include <iterator>
#include <string>
#include <type_traits>
#include <utility>
#include <vector>

struct Injected : std::exception {};

static std::string g_events;
static int g_nextId = 1;
static int g_budget = 0;  // k-th throwing-capable construction throws

static void ev(const char *kind, int id, int sid) {
  char buf[64];
  snprintf(buf, sizeof buf, "%s[\"%s\",%d,%d]", g_events.empty() ? "" : ",", kind, id, sid);
  g_events += buf;
}
static void maybeThrow() {
  if (g_budget > 0 && --g_budget == 0) throw Injected();
}

static const unsigned kMagic = 0xC0FFEE01u;

struct TCE {  // trivially copyable
  int v;
};

struct TDCE {  // trivially default constructible, not trivially copyable: its assignment operator is observable
  int v;
  TDCE() = default;
  explicit TDCE(int x) : v(x) {}
  TDCE &operator=(const TDCE &o) {
    ev("casg", 0, 0);
    v = o.v;
    return *this;
  }
};

struct RelocTag {
  typedef std::true_type trivially_relocatable;
};
struct NoTag {};

template <bool Reloc, bool NxMove>
struct Obj : std::conditional<Reloc, RelocTag, NoTag>::type {
  unsigned magic;
  int v, id, mv;
  Obj() : magic(kMagic), v(0), mv(0) {
    maybeThrow();
    id = g_nextId++;
    ev("ctor", id, 0);
  }
  explicit Obj(int x) : magic(kMagic), v(x), mv(0) {
    maybeThrow();
    id = g_nextId++;
    ev("ctor", id, 0);
  }
  Obj(const Obj &o) : magic(kMagic), v(o.v), mv(o.mv) {
    maybeThrow();
    id = g_nextId++;
    ev("cctor", id, o.id);
  }
  Obj(Obj &&o) noexcept(NxMove) : magic(kMagic), v(o.v), mv(o.mv) {
    if (!NxMove) maybeThrow();
    id = g_nextId++;
    ev("mctor", id, o.id);
    o.mv = 1;
    o.v = -1;
  }
  Obj &operator=(const Obj &o) {
    ev("casg", id, o.id);
    v = o.v;
    mv = o.mv;
    return *this;
  }
  Obj &operator=(Obj &&o) noexcept(NxMove) {
    ev("masg", id, o.id);
    v = o.v;
    mv = o.mv;
    o.mv = 1;
    o.v = -1;
    return *this;
  }
  ~Obj() {
    ev("dtor", id, 0);
    magic = 0xDEADDEADu;
  }
};
typedef Obj<true, true> TRE;
typedef Obj<false, true> NTRE;
typedef Obj<false, false> NTRME;

// iterator wrappers over an array (not pointers: the memmove fast paths must not be taken through them)
template <class T, class Cat>
struct It {
  typedef Cat iterator_category;
  typedef T value_type;
  typedef std::ptrdiff_t difference_type;
  typedef T *pointer;
  typedef T &reference;
  T *p;
  It() : p(0) {}
  explicit It(T *q) : p(q) {}
  reference operator*() const { return *p; }
  pointer operator->() const { return p; }
  It &operator++() {
    ++p;
    return *this;
  }
  It operator++(int) {
    It t(*this);
    ++p;
    return t;
  }
  It &operator--() {
    --p;
    return *this;
  }
  It operator--(int) {
    It t(*this);
    --p;
    return t;
  }
  It &operator+=(difference_type n) {
    p += n;
    return *this;
  }
  It &operator-=(difference_type n) {
    p -= n;
    return *this;
  }
  friend It operator+(It a, difference_type n) { return It(a.p + n); }
  friend It operator+(difference_type n, It a) { return It(a.p + n); }
  friend It operator-(It a, difference_type n) { return It(a.p - n); }
  friend difference_type operator-(It a, It b) { return a.p - b.p; }
  reference operator[](difference_type n) const { return p[n]; }
  friend bool operator==(It a, It b) { return a.p == b.p; }
  friend bool operator!=(It a, It b) { return a.p != b.p; }
  friend bool operator<(It a, It b) { return a.p < b.p; }
  friend bool operator>(It a, It b) { return a.p > b.p; }
  friend bool operator<=(It a, It b) { return a.p <= b.p; }
  friend bool operator>=(It a, It b) { return a.p >= b.p; }
};
template <class T>
T *rawp(T *p) {
  return p;
}
template <class T, class C>
T *rawp(It<T, C> it) {
  return it.p;
}
template <class T>
T *rawp(std::move_iterator<T *> it) {
  return it.base();
}
// number of source elements consumed
template <class T>
long consumed(T *first, T *src, int) {
  return first - src;
}
template <class T, class C>
long consumed(It<T, C> first, T *src, int) {
  return first.p - src;
}
template <class T>
long consumed(std::reverse_iterator<T *> first, T *src, int n) {
  return (src + n) - first.base();
}

struct Label {
  std::string a, sit, dit, cat;
  int n, k;
};

template <class T>
struct Decode {
  static void slot(const T *p, std::string &out) {
    char buf[96];
    if (p->magic == kMagic)
      snprintf(buf, sizeof buf, "{\"id\":%d,\"v\":%d,\"mv\":%d}", p->id, p->v, p->mv);
    else
      snprintf(buf, sizeof buf, "{\"id\":0,\"v\":0,\"mv\":0}");
    out += buf;
  }
  static void construct(T *p, int v) { new (p) T(v); }
};
template <>
struct Decode<TCE> {
  static void slot(const TCE *p, std::string &out) {
    char buf[96];
    snprintf(buf, sizeof buf, "{\"id\":0,\"v\":%d,\"mv\":0}", p->v);
    out += buf;
  }
  static void construct(TCE *p, int v) { p->v = v; }
};

template <>
struct Decode<TDCE> {
  static void slot(const TDCE *p, std::string &out) {
    char buf[96];
    snprintf(buf, sizeof buf, "{\"id\":0,\"v\":%d,\"mv\":0}", p->v);
    out += buf;
  }
  static void construct(TDCE *p, int v) { new (p) TDCE(v); }
};

struct Out {
  long ret, ret2;
  bool exc, unsupported;
  Out() : ret(0), ret2(-1), exc(false), unsupported(false) {}
};

// the algorithms, dispatched on the iterator kinds
template <class T, class S, class D>
static void call(const Label &lb, S sb, S se, D db, T *dstRaw, Out &o) {
  const std::string &a = lb.a;
  int n = lb.n;
  if (a == "uninitialized_copy") {
    o.ret = rawp(amc::uninitialized_copy(sb, se, db)) - dstRaw;
  } else if (a == "uninitialized_copy_n") {
    o.ret = rawp(amc::uninitialized_copy_n(sb, n, db)) - dstRaw;
  } else {
    o.unsupported = true;
  }
}
template <class T, class S, class D>
static void callMove(const Label &lb, S sb, S se, D db, T *srcRaw, T *dstRaw, Out &o) {
  const std::string &a = lb.a;
  int n = lb.n;
  if (a == "uninitialized_move") {
    o.ret = rawp(amc::uninitialized_move(sb, se, db)) - dstRaw;
  } else if (a == "uninitialized_move_n") {
    std::pair<S, D> pr = amc::uninitialized_move_n(sb, n, db);
    o.ret = rawp(pr.second) - dstRaw;
    o.ret2 = consumed(pr.first, srcRaw, n);
  } else if (a == "uninitialized_relocate") {
    o.ret = rawp(amc::uninitialized_relocate(sb, se, db)) - dstRaw;
  } else if (a == "uninitialized_relocate_n") {
    std::pair<S, D> pr = amc::uninitialized_relocate_n(sb, n, db);
    o.ret = rawp(pr.second) - dstRaw;
    o.ret2 = consumed(pr.first, srcRaw, n);
  } else {
    o.unsupported = true;
  }
}
template <class T, class D>
static void callDst(const Label &lb, D db, D de, T *dstRaw, Out &o) {
  const std::string &a = lb.a;
  int n = lb.n;
  if (a == "uninitialized_default_construct") {
    amc::uninitialized_default_construct(db, de);
    o.ret = n;
  } else if (a == "uninitialized_default_construct_n") {
    o.ret = rawp(amc::uninitialized_default_construct_n(db, n)) - dstRaw;
  } else if (a == "uninitialized_value_construct") {
    amc::uninitialized_value_construct(db, de);
    o.ret = n;
  } else if (a == "uninitialized_value_construct_n") {
    o.ret = rawp(amc::uninitialized_value_construct_n(db, n)) - dstRaw;
  } else {
    o.unsupported = true;
  }
}
template <class T, class S>
static void callSrc(const Label &lb, S sb, S se, T *srcRaw, Out &o) {
  const std::string &a = lb.a;
  if (a == "destroy") {
    amc::destroy(sb, se);
  } else if (a == "destroy_n") {
    o.ret = rawp(amc::destroy_n(sb, lb.n)) - srcRaw;
  } else {
    o.unsupported = true;
  }
}

template <class T, class S>
static void withDstCopy(const Label &lb, S sb, S se, T *dst, Out &o) {
  if (lb.dit == "ptr")
    call<T>(lb, sb, se, dst, dst, o);
  else if (lb.dit == "ra")
    call<T>(lb, sb, se, It<T, std::random_access_iterator_tag>(dst), dst, o);
  else
    o.unsupported = true;
}
template <class T, class S>
static void withDstMove(const Label &lb, S sb, S se, T *src, T *dst, Out &o) {
  if (lb.dit == "ptr")
    callMove<T>(lb, sb, se, dst, src, dst, o);
  else if (lb.dit == "ra")
    callMove<T>(lb, sb, se, It<T, std::random_access_iterator_tag>(dst), src, dst, o);
  else
    o.unsupported = true;
}
template <class T, class S>
static void withDst(const Label &lb, S sb, S se, T *src, T *dst, Out &o, bool moving) {
  if (moving)
    withDstMove<T>(lb, sb, se, src, dst, o);
  else
    withDstCopy<T>(lb, sb, se, dst, o);
}

// construct_at(p, 1, 2) on a type with both T(int, int) and T(std::initializer_list<int>)
struct ILE {
  int v;
  ILE(int a, int b) : v(a * 10 + b) {}
  ILE(std::initializer_list<int>) : v(-77) {}
};
template <class T>
static bool constructArgs(T *) {
  return false;
}
static bool constructArgs(TCE *dst) {
  static_assert(sizeof(ILE) == sizeof(TCE), "same layout");
  amc::construct_at(reinterpret_cast<ILE *>(dst), 1, 2);
  return true;
}

template <class T>
static void run(const Label &lb, FILE *out) {
  int n = lb.n;
  T *src = static_cast<T *>(std::malloc(sizeof(T) * static_cast<size_t>(n + 1)));
  T *dst = static_cast<T *>(std::malloc(sizeof(T) * static_cast<size_t>(n + 2)));
  std::memset(static_cast<void *>(src), 0xDD, sizeof(T) * static_cast<size_t>(n + 1));
  std::memset(static_cast<void *>(dst), 0xDD, sizeof(T) * static_cast<size_t>(n + 2));
  g_events.clear();
  g_budget = 0;
  for (int i = 0; i < n; ++i) Decode<T>::construct(src + i, i + 1);
  Out o;
  const std::string &a = lb.a;
  bool moving = a == "uninitialized_move" || a == "uninitialized_move_n" || a == "uninitialized_relocate" ||
                a == "uninitialized_relocate_n";
  bool copying = a == "uninitialized_copy" || a == "uninitialized_copy_n";
  g_budget = lb.k;
  try {
    if (a == "construct_at_args") {
      if (!constructArgs(dst)) o.unsupported = true;
    } else if (a == "construct_at") {
      amc::construct_at(dst, static_cast<const T &>(src[0]));
    } else if (a == "destroy_at") {
      amc::destroy_at(src);
    } else if (a == "relocate_at") {
      o.ret = amc::relocate_at(src, dst) - dst;
    } else if (a == "destroy" || a == "destroy_n") {
      if (lb.sit == "ptr")
        callSrc<T>(lb, src, src + n, src, o);
      else if (lb.sit == "ra")
        callSrc<T>(lb, It<T, std::random_access_iterator_tag>(src), It<T, std::random_access_iterator_tag>(src + n), src, o);
      else if (lb.sit == "bidir")
        callSrc<T>(lb, It<T, std::bidirectional_iterator_tag>(src), It<T, std::bidirectional_iterator_tag>(src + n), src, o);
      else if (lb.sit == "fwd")
        callSrc<T>(lb, It<T, std::forward_iterator_tag>(src), It<T, std::forward_iterator_tag>(src + n), src, o);
      else if (lb.sit == "rev") {
        if (a == "destroy")
          amc::destroy(std::reverse_iterator<T *>(src + n), std::reverse_iterator<T *>(src));
        else
          o.ret = consumed(amc::destroy_n(std::reverse_iterator<T *>(src + n), n), src, n);
      } else
        o.unsupported = true;
    } else if (moving || copying) {
      if (lb.sit == "ptr")
        withDst<T>(lb, src, src + n, src, dst, o, moving);
      else if (lb.sit == "ra")
        withDst<T>(lb, It<T, std::random_access_iterator_tag>(src), It<T, std::random_access_iterator_tag>(src + n), src, dst, o, moving);
      else if (lb.sit == "bidir")
        withDst<T>(lb, It<T, std::bidirectional_iterator_tag>(src), It<T, std::bidirectional_iterator_tag>(src + n), src, dst, o, moving);
      else if (lb.sit == "fwd")
        withDst<T>(lb, It<T, std::forward_iterator_tag>(src), It<T, std::forward_iterator_tag>(src + n), src, dst, o, moving);
      else if (lb.sit == "rev")
        withDst<T>(lb, std::reverse_iterator<T *>(src + n), std::reverse_iterator<T *>(src), src, dst, o, moving);
      else if (lb.sit == "move" && copying)
        withDstCopy<T>(lb, std::make_move_iterator(src), std::make_move_iterator(src + n), dst, o);
      else
        o.unsupported = true;
    } else {
      if (lb.dit == "ptr")
        callDst<T>(lb, dst, dst + n, dst, o);
      else if (lb.dit == "ra")
        callDst<T>(lb, It<T, std::random_access_iterator_tag>(dst), It<T, std::random_access_iterator_tag>(dst + n), dst, o);
      else
        o.unsupported = true;
    }
  } catch (const Injected &) {
    o.exc = true;
  }
  g_budget = 0;
  std::string s = "{\"e\":\"op\",\"lbl\":{\"a\":\"" + lb.a + "\",\"n\":" + std::to_string(static_cast<long long>(lb.n)) + ",\"sit\":\"" + lb.sit +
                  "\",\"dit\":\"" + lb.dit + "\",\"cat\":\"" + lb.cat + "\",\"k\":" + std::to_string(static_cast<long long>(lb.k)) + "},\"src\":[";
  for (int i = 0; i < n; ++i) {
    if (i) s += ",";
    Decode<T>::slot(src + i, s);
  }
  s += "],\"dst\":[";
  for (int i = 0; i < n + 1; ++i) {
    if (i) s += ",";
    Decode<T>::slot(dst + i, s);
  }
  s += "],\"ret\":" + std::to_string(static_cast<long long>(o.ret)) + ",\"ret2\":" + std::to_string(static_cast<long long>(o.ret2)) + ",\"exc\":" +
       (o.exc ? "true" : "false") + ",\"unsupported\":" + (o.unsupported ? "true" : "false") + ",\"events\":[" + g_events + "]}\n";
  fputs(s.c_str(), out);
  std::free(src);
  std::free(dst);
}

int main(int argc, char **argv) {
  if (argc < 3) return 2;
  FILE *in = fopen(argv[1], "r");
  FILE *out = fopen(argv[2], "w");
  if (!in || !out) return 2;
  fprintf(out, "{\"e\":\"config\",\"name\":\"%s\",\"std\":%ld,\"nonstd\":%s}\n", argc > 3 ? argv[3] : "mem", static_cast<long>(__cplusplus),
#ifdef AMC_NONSTD_FEATURES
          "true"
#else
          "false"
#endif
  );
  char a[64], sit[16], dit[16], cat[16];
  int n, k;
  while (fscanf(in, "%63s %d %15s %15s %15s %d", a, &n, sit, dit, cat, &k) == 6) {
    Label lb;
    lb.a = a, lb.n = n, lb.sit = sit, lb.dit = dit, lb.cat = cat, lb.k = k;
    if (lb.cat == "TC")
      run<TCE>(lb, out);
    else if (lb.cat == "TDC")
      run<TDCE>(lb, out);
    else if (lb.cat == "TR")
      run<TRE>(lb, out);
    else if (lb.cat == "NTR")
      run<NTRE>(lb, out);
    else
      run<NTRME>(lb, out);
  }
  fclose(out);
  return 0;
}
