// Conformance harness for the vector flavours: an interpreter from specification labels to calls on the real
// containers, recording what it observes (one ndjson line per call).  No expected values, no semantic checks.
//
// Build-time configuration:
//   -DCFG_ELEM=<vh::ETC|vh::ETC1|vh::ETR|vh::ENTR|vh::ENTRM>     element category
//   -DCFG_ALLOC=<1..5>     1 amc::BasicAllocatorWrapper<T, vh::LedBasic>  2 vh::StdLike  3 vh::WithRealloc
//                          4 amc::allocator (not instrumented)           5 std::allocator (not instrumented)
//   -DCFG_TYPES=<comma separated list of container types, using E and A<E>>   the slots of the pool
//   -DCFG_NAME="..."       name of the configuration (copied into the trace)
#include <amc/fixedcapacityvector.hpp>
#include <amc/smallvector.hpp>
#include <amc/vector.hpp>

#include <memory>
#include <optional>
#include <tuple>
#include <vector>

#include "vh.hpp"

using namespace vh;

#ifndef CFG_ELEM
#define CFG_ELEM vh::ETC
#endif
#ifndef CFG_ALLOC
#define CFG_ALLOC 1
#endif
using E = CFG_ELEM;
#if CFG_ALLOC == 1
template <class T>
using A = amc::BasicAllocatorWrapper<T, vh::LedBasic>;
static const char *kAllocName = "amcled";
#elif CFG_ALLOC == 2
template <class T>
using A = vh::StdLike<T>;
static const char *kAllocName = "stdlike";
#elif CFG_ALLOC == 3
template <class T>
using A = vh::WithRealloc<T>;
static const char *kAllocName = "withrealloc";
#elif CFG_ALLOC == 4
template <class T>
using A = amc::allocator<T>;
static const char *kAllocName = "amc";
#else
template <class T>
using A = std::allocator<T>;
static const char *kAllocName = "std";
#endif
// a second allocator TYPE (swap2 between vectors whose allocators differ)
template <class T>
using A2 = vh::StdLike<T, 1>;
#ifndef CFG_TYPES
#define CFG_TYPES amc::SmallVector<E, 2, A<E>, uint32_t>
#endif
#ifndef CFG_NAME
#define CFG_NAME "default"
#endif

#ifdef VH_COUNT_GLOBAL_ALLOCS
static const char *kCountsGlobal = "true";
#else
static const char *kCountsGlobal = "false";
#endif

using Types = std::tuple<CFG_TYPES>;
static constexpr int K = static_cast<int>(std::tuple_size<Types>::value);

// ---------------------------------------------------------------------------------------------------------------
// static description of a slot type
template <class T>
struct Traits {  // std::vector (reference implementation)
  static constexpr bool amc = false;
  static const char *flav() { return "vector"; }
  static long n() { return 0; }
  static int aid() { return 1; }
};
template <class T, class Al, class S, class G, S N>
struct Traits<amc::Vector<T, Al, S, G, N>> {
  static constexpr bool amc = true;
  static constexpr bool dynamic = std::is_same<G, amc::vec::DynamicGrowingPolicy>::value;
  static const char *flav() { return !dynamic ? "fixed" : (N == 0 ? "vector" : "small"); }
  static long n() { return static_cast<long>(N); }
  static int aid() { return std::is_same<Al, A2<T>>::value ? 2 : (dynamic ? 1 : 0); }
};

static const char *elemName() {
  return std::is_same<E, ETC>::value     ? "TC"
         : std::is_same<E, ETC1>::value  ? "TC"
         : std::is_same<E, ETR>::value   ? "TR"
         : std::is_same<E, ENTR>::value  ? "NTR"
         : std::is_same<E, ENTRM>::value ? "NTR"
         : std::is_same<E, ENTRA>::value ? "NTR"
                                         : "?";
}

template <class T>
struct Slot {
  using type = T;
  T *p = nullptr;
  void *raw = nullptr;
  bool ex() const { return p != nullptr; }
  void *fresh() {
    Internal g;
    void *r = nullptr;
    if (posix_memalign(&r, alignof(T) < sizeof(void *) ? sizeof(void *) : alignof(T), sizeof(T)) != 0) _exit(2);
    return r;
  }
  template <class F>
  void construct(F &&f) {  // f(void* where) performs the placement new and may throw
    void *r = fresh();
    try {
      p = f(r);
      raw = r;
    } catch (...) {
      Internal g;
      std::free(r);
      p = nullptr;
      raw = nullptr;
      throw;
    }
  }
  void destroy() {
    p->~T();
    {
      Internal g;
      std::memset(raw, 0xDD, sizeof(T));
      std::free(raw);
    }
    p = nullptr;
    raw = nullptr;
  }
  void relocate() {
    void *r = fresh();
    if (amc::is_trivially_relocatable<T>::value) {
      std::memcpy(r, raw, sizeof(T));  // the source is abandoned: no destructor
    } else {
      T *np = new (r) T(std::move(*p));
      (void)np;
      p->~T();
    }
    {
      Internal g;
      std::memset(raw, 0xDD, sizeof(T));
      std::free(raw);
    }
    raw = r;
    p = static_cast<T *>(r);
  }
};

template <class Tuple>
struct SlotsOf;
template <class... Ts>
struct SlotsOf<std::tuple<Ts...>> {
  using type = std::tuple<Slot<Ts>...>;
};
static SlotsOf<Types>::type g_slots;

template <class F, size_t... I>
static void visitImpl(int c, F &&f, std::index_sequence<I...>) {
  (void)std::initializer_list<int>{(c == static_cast<int>(I) + 1 ? (f(std::get<I>(g_slots)), 0) : 0)...};
}
template <class F>
static void visit(int c, F &&f) {
  visitImpl(c, std::forward<F>(f), std::make_index_sequence<static_cast<size_t>(K)>());
}

// ---------------------------------------------------------------------------------------------------------------
struct Label {
  std::string op;
  int c = 0, d = 0, pos = 0, n = 0, v = 0, src = 0, k = 0;
  std::string it;
  std::vector<int> vs;
  std::string json() const {
    std::string s = "{\"op\":\"" + op + "\",\"c\":" + std::to_string(c) + ",\"d\":" + std::to_string(d) +
                    ",\"pos\":" + std::to_string(pos) + ",\"n\":" + std::to_string(n) + ",\"v\":" + std::to_string(v) +
                    ",\"src\":" + std::to_string(src) + ",\"it\":\"" + (it == "-" ? "" : it) + "\",\"vs\":[";
    for (size_t i = 0; i < vs.size(); ++i) s += (i ? "," : "") + std::to_string(vs[i]);
    s += "],\"k\":" + std::to_string(k) + "}";
    return s;
  }
};

struct Result {
  std::string k = "none";
  long i = 0;
  std::string s;
  void idx(long x) { k = "idx", i = x; }
  void val(long x) { k = "val", i = x; }
  void boolean(bool b) { k = "bool", i = b ? 1 : 0; }
  void exc(const char *w) { k = "exc", i = 0, s = w; }
  void unsupported() { k = "unsupported"; }
  std::string json() const { return "{\"k\":\"" + k + "\",\"i\":" + std::to_string(i) + ",\"s\":\"" + s + "\"}"; }
};

// run the library call: fault budget armed, global allocations counted, exceptions classified
static long clampL(unsigned long long x) { return x > 2000000000ULL ? 2000000000L : static_cast<long>(x); }

template <class F>
static void guarded(const Label &lb, Result &r, F &&f) {
  R.gm = 0;
  R.arm(lb.k);
  R.window = true;
  try {
    f();
    R.window = false;
    R.disarm();
  } catch (const Injected &) {
    R.window = false, R.disarm(), r.exc("injected");
  } catch (const std::bad_alloc &) {
    R.window = false, R.disarm(), r.exc("bad_alloc");
  } catch (const std::out_of_range &) {
    R.window = false, R.disarm(), r.exc("out_of_range");
  } catch (const std::overflow_error &) {
    R.window = false, R.disarm(), r.exc("overflow_error");
  } catch (const std::length_error &) {
    R.window = false, R.disarm(), r.exc("length_error");
  } catch (const std::exception &) {
    R.window = false, R.disarm(), r.exc("exception");
  } catch (...) {
    R.window = false, R.disarm(), r.exc("unknown");
  }
}

// the source of a range argument, kept alive (and then destroyed) by the harness
struct RangeSrc {
  std::vector<E> arr;
  std::list<E> lst;
  typename InputIt<E>::Shared sh{nullptr, 0, 0};
  explicit RangeSrc(const Label &lb) {
    Internal g;
    arr.reserve(lb.vs.size());
    for (int x : lb.vs) arr.emplace_back(x);
    if (lb.it == "bidir")
      for (int x : lb.vs) lst.emplace_back(x);
    sh.base = arr.data();
    sh.n = arr.size();
  }
  ~RangeSrc() {
    Internal g;
    arr.clear();
    lst.clear();
  }
  template <class F>
  bool with(const std::string &it, F &&f) {  // f(first, last)
    const E *b = arr.data(), *e = arr.data() + arr.size();
    if (it == "ptr")
      f(b, e);
    else if (it == "input")
      f(InputIt<E>(&sh, false), InputIt<E>(&sh, true));
    else if (it == "fwd")
      f(WrapIt<E, std::forward_iterator_tag>(b), WrapIt<E, std::forward_iterator_tag>(e));
    else if (it == "ra")
      f(WrapIt<E, std::random_access_iterator_tag>(b), WrapIt<E, std::random_access_iterator_tag>(e));
    else if (it == "bidir")
      f(lst.begin(), lst.end());
    else if (it == "move")
      f(std::make_move_iterator(arr.data()), std::make_move_iterator(arr.data() + arr.size()));
    else
      return false;
    return true;
  }
};

template <class F>
static bool withIlist(const std::vector<int> &vs, F &&f) {
  switch (vs.size()) {
    case 0: {
      std::initializer_list<E> il{};
      f(il);
      return true;
    }
    case 1: {
      std::initializer_list<E> il{E(vs[0])};
      f(il);
      return true;
    }
    case 2: {
      std::initializer_list<E> il{E(vs[0]), E(vs[1])};
      f(il);
      return true;
    }
    case 3: {
      std::initializer_list<E> il{E(vs[0]), E(vs[1]), E(vs[2])};
      f(il);
      return true;
    }
    default:
      return false;
  }
}

// ---------------------------------------------------------------------------------------------------------------
// constructors (slot does not exist)
template <class T>
static void runCtor(Slot<T> &s, const Label &lb, Result &r) {
  const std::string &op = lb.op;
  using SZ = typename T::size_type;
  if (op == "ctorDefault") {
    guarded(lb, r, [&] { s.construct([&](void *w) { return new (w) T(); }); });
  } else if (op == "ctorCount") {
    guarded(lb, r, [&] { s.construct([&](void *w) { return new (w) T(static_cast<SZ>(lb.n)); }); });
  } else if (op == "ctorCountBig") {
    guarded(lb, r, [&] { s.construct([&](void *w) { return new (w) T(static_cast<SZ>(lb.n)); }); });
  } else if (op == "ctorCountVal") {
    std::optional<E> t;
    t.emplace(lb.v);
    guarded(lb, r, [&] { s.construct([&](void *w) { return new (w) T(static_cast<SZ>(lb.n), *t); }); });
  } else if (op == "ctorRange") {
    RangeSrc src(lb);
    bool ok = true;
    guarded(lb, r, [&] {
      ok = src.with(lb.it, [&](auto f, auto l) { s.construct([&](void *w) { return new (w) T(f, l); }); });
    });
    if (!ok) r.unsupported();
  } else if (op == "ctorIlist") {
    bool ok = true;
    guarded(lb, r, [&] {
      ok = withIlist(lb.vs, [&](std::initializer_list<E> il) { s.construct([&](void *w) { return new (w) T(il); }); });
    });
    if (!ok) r.unsupported();
  } else {
    r.unsupported();
  }
}

// operations on one existing container
template <class T>
static void run1(Slot<T> &s, const Label &lb, Result &r) {
  T &v = *s.p;
  const std::string &op = lb.op;
  using SZ = typename T::size_type;
  constexpr bool amc = Traits<T>::amc;
  std::optional<E> tmp;
  const E *arg = nullptr;
  auto prepArg = [&] {
    if (lb.src > 0)
      arg = &v[static_cast<SZ>(lb.src - 1)];
    else {
      tmp.emplace(lb.v);
      arg = &*tmp;
    }
  };
  if (op == "destroy") {
    guarded(lb, r, [&] { s.destroy(); });
  } else if (op == "relocate") {
    guarded(lb, r, [&] { s.relocate(); });
  } else if (op == "assignIlist") {
    bool ok = true;
    guarded(lb, r, [&] { ok = withIlist(lb.vs, [&](std::initializer_list<E> il) { v.assign(il); }); });
    if (!ok) r.unsupported();
  } else if (op == "assignOpIlist") {
    bool ok = true;
    guarded(lb, r, [&] { ok = withIlist(lb.vs, [&](std::initializer_list<E> il) { v = il; }); });
    if (!ok) r.unsupported();
  } else if (op == "assignN") {
    prepArg();
    guarded(lb, r, [&] { v.assign(static_cast<SZ>(lb.n), *arg); });
  } else if (op == "assignRange") {
    RangeSrc src(lb);
    bool ok = true;
    guarded(lb, r, [&] { ok = src.with(lb.it, [&](auto f, auto l) { v.assign(f, l); }); });
    if (!ok) r.unsupported();
  } else if (op == "insert1") {
    prepArg();
    guarded(lb, r, [&] { { auto it_ = v.insert(v.begin() + lb.pos, *arg); r.idx(it_ - v.begin()); } });
  } else if (op == "insert1rv") {
    tmp.emplace(lb.v);
    guarded(lb, r, [&] { { auto it_ = v.insert(v.begin() + lb.pos, std::move(*tmp)); r.idx(it_ - v.begin()); } });
  } else if (op == "emplace") {
    if (lb.src > 0) {
      arg = &v[static_cast<SZ>(lb.src - 1)];
      guarded(lb, r, [&] { { auto it_ = v.emplace(v.begin() + lb.pos, *arg); r.idx(it_ - v.begin()); } });
    } else {
      guarded(lb, r, [&] { { auto it_ = v.emplace(v.begin() + lb.pos, lb.v); r.idx(it_ - v.begin()); } });
    }
  } else if (op == "emplaceF" && lb.src > 0) {
    const auto &field = v[static_cast<SZ>(lb.src - 1)].v;  // reference to a member of an own element
    guarded(lb, r, [&] { { auto it_ = v.emplace(v.begin() + lb.pos, field); r.idx(it_ - v.begin()); } });
  } else if (op == "emplaceBackF" && lb.src > 0) {
    const auto &field = v[static_cast<SZ>(lb.src - 1)].v;
    guarded(lb, r, [&] { r.val(v.emplace_back(field).v); });
  } else if (op == "insertN") {
    prepArg();
    guarded(lb, r, [&] { { auto it_ = v.insert(v.begin() + lb.pos, static_cast<SZ>(lb.n), *arg); r.idx(it_ - v.begin()); } });
  } else if (op == "insertRange") {
    RangeSrc src(lb);
    bool ok = true;
    guarded(lb, r, [&] {
      ok = src.with(lb.it, [&](auto f, auto l) { { auto it_ = v.insert(v.begin() + lb.pos, f, l); r.idx(it_ - v.begin()); } });
    });
    if (!ok) r.unsupported();
  } else if (op == "insertIlist") {
    bool ok = true;
    guarded(lb, r, [&] {
      ok = withIlist(lb.vs, [&](std::initializer_list<E> il) { { auto it_ = v.insert(v.begin() + lb.pos, il); r.idx(it_ - v.begin()); } });
    });
    if (!ok) r.unsupported();
  } else if (op == "emplaceBack") {
    if (lb.src > 0) {
      arg = &v[static_cast<SZ>(lb.src - 1)];
      guarded(lb, r, [&] { r.val(v.emplace_back(*arg).v); });
    } else {
      guarded(lb, r, [&] { r.val(v.emplace_back(lb.v).v); });
    }
  } else if (op == "pushBack") {
    prepArg();
    guarded(lb, r, [&] { v.push_back(*arg); });
  } else if (op == "pushBackRv") {
    tmp.emplace(lb.v);
    guarded(lb, r, [&] { v.push_back(std::move(*tmp)); });
  } else if (op == "popBack") {
    guarded(lb, r, [&] { v.pop_back(); });
  } else if (op == "popBackVal") {
    if constexpr (amc) {
      guarded(lb, r, [&] {
        E x = v.pop_back_val();
        r.val(x.v);
      });
    } else {
      guarded(lb, r, [&] {
        E x = std::move(v.back());
        v.pop_back();
        r.val(x.v);
      });
    }
  } else if (op == "erase1") {
    guarded(lb, r, [&] { { auto it_ = v.erase(v.begin() + lb.pos); r.idx(it_ - v.begin()); } });
  } else if (op == "eraseRange") {
    guarded(lb, r, [&] { { auto it_ = v.erase(v.begin() + lb.pos, v.begin() + lb.n); r.idx(it_ - v.begin()); } });
  } else if (op == "resize") {
    guarded(lb, r, [&] { v.resize(static_cast<SZ>(lb.n)); });
  } else if (op == "resizeVal") {
    prepArg();
    guarded(lb, r, [&] { v.resize(static_cast<SZ>(lb.n), *arg); });
  } else if (op == "clear") {
    guarded(lb, r, [&] { v.clear(); });
  } else if (op == "reserve" || op == "reserveBig") {
    guarded(lb, r, [&] { v.reserve(static_cast<SZ>(lb.n)); });
  } else if (op == "shrinkToFit") {
    guarded(lb, r, [&] { v.shrink_to_fit(); });
  } else if (op == "appendN") {
    if constexpr (amc) {
      guarded(lb, r, [&] { v.append(static_cast<SZ>(lb.n)); });
    } else {
      guarded(lb, r, [&] { v.resize(v.size() + static_cast<SZ>(lb.n)); });
    }
  } else if (op == "appendNVal") {
    prepArg();
    if constexpr (amc) {
      guarded(lb, r, [&] { v.append(static_cast<SZ>(lb.n), *arg); });
    } else {
      guarded(lb, r, [&] { v.insert(v.end(), static_cast<SZ>(lb.n), *arg); });
    }
  } else if (op == "appendRange") {
    RangeSrc src(lb);
    bool ok = true;
    guarded(lb, r, [&] {
      ok = src.with(lb.it, [&](auto f, auto l) {
        if constexpr (amc)
          v.append(f, l);
        else
          v.insert(v.end(), f, l);
      });
    });
    if (!ok) r.unsupported();
  } else if (op == "appendIlist") {
    bool ok = true;
    guarded(lb, r, [&] {
      ok = withIlist(lb.vs, [&](std::initializer_list<E> il) {
        if constexpr (amc)
          v.append(il);
        else
          v.insert(v.end(), il);
      });
    });
    if (!ok) r.unsupported();
  } else if (op == "eraseVal") {
#if __cplusplus >= 202002L
    tmp.emplace(lb.v);
    guarded(lb, r, [&] { r.val(static_cast<long>(erase(v, *tmp))); });
#else
    r.unsupported();
#endif
  } else if (op == "insertNHuge" || op == "appendNHuge") {
    if constexpr (amc) {
      tmp.emplace(lb.v);
      const SZ count = static_cast<SZ>(std::numeric_limits<SZ>::max() - static_cast<SZ>(lb.n));
      if (op == "insertNHuge")
        guarded(lb, r, [&] { { auto it_ = v.insert(v.begin() + lb.pos, count, *tmp); r.idx(it_ - v.begin()); } });
      else
        guarded(lb, r, [&] { v.append(count, *tmp); });
    } else {
      r.unsupported();
    }
  } else if (op == "eraseIf") {
#if __cplusplus >= 202002L
    guarded(lb, r, [&] { r.val(static_cast<long>(erase_if(v, [&](const E &e) { return e.v % 2 == lb.n; }))); });
#else
    r.unsupported();
#endif
  } else if (op == "setIndex") {
    guarded(lb, r, [&] { v[static_cast<SZ>(lb.n)].v = lb.v; });
  } else if (op == "setAt") {
    guarded(lb, r, [&] { v.at(static_cast<SZ>(lb.n)).v = lb.v; });
  } else if (op == "setFront") {
    guarded(lb, r, [&] { v.front().v = lb.v; });
  } else if (op == "setBack") {
    guarded(lb, r, [&] { v.back().v = lb.v; });
  } else if (op == "setData") {
    guarded(lb, r, [&] { v.data()[lb.n].v = lb.v; });
  } else if (op == "setIter") {
    guarded(lb, r, [&] { (v.begin() + lb.n)->v = lb.v; });
  } else if (op == "setRIter") {
    guarded(lb, r, [&] { (v.rbegin() + (static_cast<long>(v.size()) - 1 - lb.n))->v = lb.v; });
  } else if (op == "maxSize") {
    const T &cv = v;
    guarded(lb, r, [&] { r.val(clampL(cv.max_size())); });
  } else if (op == "at") {
    const T &cv = v;
    guarded(lb, r, [&] { r.val(cv.at(static_cast<SZ>(lb.n)).v); });
  } else if (op == "index") {
    const T &cv = v;
    guarded(lb, r, [&] { r.val(cv[static_cast<SZ>(lb.n)].v); });
  } else if (op == "front") {
    const T &cv = v;
    guarded(lb, r, [&] { r.val(cv.front().v); });
  } else if (op == "back") {
    const T &cv = v;
    guarded(lb, r, [&] { r.val(cv.back().v); });
  } else if (op == "iterate") {
    const T &cv = v;
    guarded(lb, r, [&] {
      long fw = 0, bw = 0, m = 1;
      for (auto it = cv.begin(); it != cv.end(); ++it) fw = fw * 31 + it->v + 1;
      for (auto it = cv.rbegin(); it != cv.rend(); ++it) bw += (it->v + 1) * m, m *= 31;
      r.val(fw == bw ? static_cast<long>(cv.end() - cv.begin()) : -1);
    });
  } else {
    r.unsupported();
  }
  tmp.reset();
}

template <class T, class U>
struct CanSwap2 : std::false_type {};
template <class T, class A1, class S1, class G1, S1 N1, class A2, class S2, class G2, S2 N2>
struct CanSwap2<amc::Vector<T, A1, S1, G1, N1>, amc::Vector<T, A2, S2, G2, N2>> : std::true_type {};

template <class T>
struct IsAmcVectorN0 : std::false_type {};

// binary operations: slot a is lb.c, slot b is lb.d
template <class T, class U>
static void run2(Slot<T> &a, Slot<U> &b, const Label &lb, Result &r) {
  const std::string &op = lb.op;
  constexpr bool same = std::is_same<T, U>::value;
  if (op == "swap2") {
    if constexpr (CanSwap2<T, U>::value) {
      guarded(lb, r, [&] { a.p->swap2(*b.p); });
    } else if constexpr (same) {
      guarded(lb, r, [&] { a.p->swap(*b.p); });
    } else {
      r.unsupported();
    }
    return;
  }
  if (op == "ctorFromVector") {
    if constexpr (std::is_constructible<T, U &&>::value && !same) {
      guarded(lb, r, [&] { a.construct([&](void *w) { return new (w) T(std::move(*b.p)); }); });
    } else {
      r.unsupported();
    }
    return;
  }
  if constexpr (same) {
    if (op == "ctorCopy") {
      guarded(lb, r, [&] { a.construct([&](void *w) { return new (w) T(static_cast<const T &>(*b.p)); }); });
    } else if (op == "ctorMove") {
      guarded(lb, r, [&] { a.construct([&](void *w) { return new (w) T(std::move(*b.p)); }); });
    } else if (op == "assignCopy") {
      guarded(lb, r, [&] { *a.p = static_cast<const T &>(*b.p); });
    } else if (op == "assignMove") {
      guarded(lb, r, [&] { *a.p = std::move(*b.p); });
    } else if (op == "swap") {
      guarded(lb, r, [&] { a.p->swap(*b.p); });
    } else if (op == "freeSwap") {
      if constexpr (Traits<T>::amc) {
        guarded(lb, r, [&] { amc::swap(*a.p, *b.p); });
      } else {
        guarded(lb, r, [&] { std::swap(*a.p, *b.p); });
      }
    } else if (op == "eq") {
      guarded(lb, r, [&] { r.boolean(static_cast<const T &>(*a.p) == static_cast<const T &>(*b.p)); });
    } else if (op == "ne") {
      guarded(lb, r, [&] { r.boolean(static_cast<const T &>(*a.p) != static_cast<const T &>(*b.p)); });
    } else if (op == "lt") {
      guarded(lb, r, [&] { r.boolean(static_cast<const T &>(*a.p) < static_cast<const T &>(*b.p)); });
    } else if (op == "le") {
      guarded(lb, r, [&] { r.boolean(static_cast<const T &>(*a.p) <= static_cast<const T &>(*b.p)); });
    } else if (op == "gt") {
      guarded(lb, r, [&] { r.boolean(static_cast<const T &>(*a.p) > static_cast<const T &>(*b.p)); });
    } else if (op == "ge") {
      guarded(lb, r, [&] { r.boolean(static_cast<const T &>(*a.p) >= static_cast<const T &>(*b.p)); });
    } else {
      r.unsupported();
    }
  } else {
    r.unsupported();
  }
}

// ---------------------------------------------------------------------------------------------------------------
// observation

template <class T>
static void observe(Slot<T> &s, std::string &out) {
  if (!s.ex()) {
    out += "{\"ex\":false}";
    return;
  }
  const T &v = *s.p;
  const E *d = v.data();
  const char *lo = reinterpret_cast<const char *>(s.p), *hi = lo + sizeof(T);
  const char *dc = reinterpret_cast<const char *>(d);
  bool inl = d != nullptr && dc >= lo && dc < hi;
  std::string vals, ids, toks, mv;
  size_t n = static_cast<size_t>(v.size());
  for (size_t i = 0; i < n; ++i) {
    const E &e = d[i];
    e.check_();
    const char *sep = i ? "," : "";
    vals += sep + std::to_string(static_cast<int>(e.v));
    ids += sep + std::to_string(e.id_());
    toks += sep + std::to_string(R.token(&e));
    mv += sep + std::to_string(e.mv_());
  }
  out += "{\"ex\":true,\"size\":" + std::to_string(n) + ",\"empty\":" + (v.empty() ? "true" : "false") +
         ",\"cap\":" + std::to_string(clampL(v.capacity())) + ",\"inl\":" + (inl ? "true" : "false") +
         ",\"buf\":" + std::to_string(R.token(d)) + ",\"maxsz\":" + std::to_string(clampL(v.max_size())) +
         ",\"vals\":[" + vals + "],\"ids\":[" + ids + "],\"toks\":[" + toks + "],\"mv\":[" + mv + "]}";
}

template <size_t... I>
static void observeAll(std::string &out, std::index_sequence<I...>) {
  bool first = true;
  (void)std::initializer_list<int>{((out += first ? "" : ","), first = false, observe(std::get<I>(g_slots), out), 0)...};
}

extern long g_h0, g_h1;
template <size_t... I>
static void healAll(std::index_sequence<I...>) {
  auto heal = [](auto &s) {
    if (!s.ex()) return;
    const auto &v = *s.p;
    for (size_t i = 0, n = static_cast<size_t>(v.size()); i < n; ++i) v.data()[i].heal_();
  };
  (heal(std::get<I>(g_slots)), ...);
}

static void emit(const Label &lb, const Result &r) {
  Internal g;
  std::string line = "{\"e\":\"op\",\"lbl\":" + lb.json() + ",\"ret\":" + r.json() + ",\"obs\":[";
  observeAll(line, std::make_index_sequence<static_cast<size_t>(K)>());
  line += "],\"prims\":[" + R.prims + "],\"allocs\":[" + R.allocs + "],\"gm\":" + std::to_string(R.gm) +
          ",\"te\":" + std::to_string(R.throwEvents) + ",\"tm\":" + (R.thrownByMove ? "true" : "false") + ",\"h0\":" + std::to_string(g_h0) + ",\"h1\":" + std::to_string(g_h1) + "}";
  R.prims.clear();
  R.allocs.clear();
  OUT.line(line);
  if (R.thrownByMove) {
    // a move operation that throws inevitably leaves moved-from elements behind (reported on this line, where the
    // specification waives them): they are not reported again on the following lines
    healAll(std::make_index_sequence<static_cast<size_t>(K)>());
    R.thrownByMove = false;
  }
}

static bool exists(int c) {
  bool e = false;
  visit(c, [&](auto &s) { e = s.ex(); });
  return e;
}

static bool g_lastInjected = false;
long g_h0 = 0, g_h1 = 0;

static bool isConstOp(const std::string &op) {
  return op == "at" || op == "index" || op == "front" || op == "back" || op == "iterate" || op == "maxSize" || op == "eq" || op == "ne" || op == "lt" ||
         op == "le" || op == "gt" || op == "ge" || op == "ctorCopy" || op == "assignCopy";
}
// hash of the representation of the container(s) a const operation reads: the object bytes and its element buffer
static long hashConstOperands(const Label &lb) {
  long h = 0;
  bool rd = lb.op == "ctorCopy" || lb.op == "assignCopy";   // the operand read is the second one
  int who[2] = {rd ? lb.d : lb.c, (lb.d != 0 && !rd) ? lb.d : 0};
  for (int i = 0; i < 2; ++i) {
    if (who[i] == 0) continue;
    visit(who[i], [&](auto &s) {
      if (!s.ex()) return;
      using T = typename std::remove_reference<decltype(s)>::type::type;
      h = (h * 31 + repHash(s.p, sizeof(T))) % 1000000007L;
      h = (h * 31 + repHash(s.p->data(), sizeof(E) * static_cast<size_t>(s.p->size()))) % 1000000007L;
    });
  }
  return h;
}

static void execute(const Label &lb) {
  {
    Internal g;
    std::string j = lb.json();
    size_t n = j.size() < sizeof(g_inflight) - 1 ? j.size() : sizeof(g_inflight) - 1;
    memcpy(g_inflight, j.data(), n);
    g_inflight[n] = 0;
    g_inflightValid = 1;
  }
  Result r;
  bool isCtor = lb.op.compare(0, 4, "ctor") == 0;
  bool cop = isConstOp(lb.op) && lb.c >= 1 && lb.c <= K && lb.d >= 0 && lb.d <= K && !(lb.op == "assignCopy" && lb.c == lb.d);
  g_h0 = cop ? hashConstOperands(lb) : 0;
  if (lb.c < 1 || lb.c > K || (lb.d != 0 && (lb.d < 1 || lb.d > K))) {
    r.unsupported();
  } else if (isCtor) {
    if (exists(lb.c) || (lb.d != 0 && !exists(lb.d))) {
      r.unsupported();
    } else if (lb.d == 0) {
      visit(lb.c, [&](auto &s) { runCtor(s, lb, r); });
    } else {
      visit(lb.c, [&](auto &a) { visit(lb.d, [&](auto &b) { run2(a, b, lb, r); }); });
    }
  } else if (!exists(lb.c) || (lb.d != 0 && !exists(lb.d))) {
    r.unsupported();
  } else if (lb.d == 0) {
    visit(lb.c, [&](auto &s) { run1(s, lb, r); });
  } else {
    visit(lb.c, [&](auto &a) { visit(lb.d, [&](auto &b) { run2(a, b, lb, r); }); });
  }
  g_inflightValid = 0;
  g_lastInjected = r.k == "exc" && (r.s == "injected" || r.s == "bad_alloc");
  g_h1 = cop ? hashConstOperands(lb) : 0;
  emit(lb, r);
}

// end of an execution: destroy what is left (as explicit events), then a reset marker
static void finishExecution() {
  for (int c = 1; c <= K; ++c) {
    if (exists(c)) {
      Label lb;
      lb.op = "destroy";
      lb.c = c;
      lb.it = "-";
      execute(lb);
    }
  }
  OUT.line("{\"e\":\"reset\"}");
  R.resetTokens();
}

template <size_t... I>
static std::string configJson(std::index_sequence<I...>) {
  std::string s = std::string("{\"e\":\"config\",\"name\":\"") + CFG_NAME + "\",\"elem\":\"" + elemName() +
                  "\",\"esize\":" + std::to_string(sizeof(E)) + ",\"alloc\":\"" + kAllocName +
                  "\",\"std\":" + std::to_string(__cplusplus) + ",\"nxmove\":" +
                  (std::is_nothrow_move_constructible<E>::value && std::is_nothrow_move_assignable<E>::value ? "true" : "false") + ",\"countsGlobal\":" + kCountsGlobal +
                  ",\"slots\":[";
  bool first = true;
  // two slots have the same TypeId iff their C++ types are identical
  const void *ids[] = {static_cast<const void *>(&typeid(typename std::tuple_element<I, Types>::type))...};
  int tid[sizeof...(I)];
  for (size_t i = 0; i < sizeof...(I); ++i) {
    tid[i] = static_cast<int>(i) + 1;
    for (size_t j = 0; j < i; ++j)
      if (ids[j] == ids[i]) {
        tid[i] = tid[j];
        break;
      }
  }
  size_t idx = 0;
  (void)std::initializer_list<int>{
      ((s += std::string(first ? "" : ",") + "{\"flav\":\"" + Traits<typename std::tuple_element<I, Types>::type>::flav() +
             "\",\"n\":" + std::to_string(Traits<typename std::tuple_element<I, Types>::type>::n()) + ",\"maxsz\":" +
             std::to_string(clampL(std::numeric_limits<typename std::tuple_element<I, Types>::type::size_type>::max())) +
             ",\"ref\":" + (Traits<typename std::tuple_element<I, Types>::type>::amc ? "false" : "true") +
             ",\"tid\":" + std::to_string(tid[idx]) + ",\"aid\":" +
             std::to_string(Traits<typename std::tuple_element<I, Types>::type>::aid()) + ",\"sizeof\":" +
             std::to_string(sizeof(typename std::tuple_element<I, Types>::type)) + ",\"reloc\":" +
             (amc::is_trivially_relocatable<typename std::tuple_element<I, Types>::type>::value ? "true" : "false") + "}"),
       first = false, ++idx, 0)...};
  s += "]}";
  return s;
}

#include <typeinfo>

static bool parseLine(const std::string &line, Label &lb) {
  // op c d pos n v src it k nvs vs...
  char op[64], it[32];
  int nvs = 0, off = 0;
  if (sscanf(line.c_str(), "%63s %d %d %d %d %d %d %31s %d %d%n", op, &lb.c, &lb.d, &lb.pos, &lb.n, &lb.v, &lb.src, it,
             &lb.k, &nvs, &off) < 10)
    return false;
  lb.op = op;
  lb.it = it;
  lb.vs.clear();
  const char *p = line.c_str() + off;
  for (int i = 0; i < nvs; ++i) {
    int x, o2;
    if (sscanf(p, "%d%n", &x, &o2) < 1) return false;
    lb.vs.push_back(x);
    p += o2;
  }
  return true;
}

// Script: one label per line, executions separated by "reset".  Executions are run in forked children (a batch per
// child) so that a crash, an abort or a hang of the implementation ends one execution, not the run.
int main(int argc, char **argv) {
  if (argc < 3) {
    fprintf(stderr, "usage: %s <script> <trace.ndjson> [batch]\n", argv[0]);
    return 2;
  }
  int batch = argc > 3 ? atoi(argv[3]) : 200;
  std::vector<std::vector<std::string>> execs;
  {
    FILE *f = fopen(argv[1], "r");
    if (!f) {
      perror("script");
      return 2;
    }
    char *ln = nullptr;
    size_t cap = 0;
    ssize_t n;
    execs.emplace_back();
    while ((n = getline(&ln, &cap, f)) > 0) {
      while (n > 0 && (ln[n - 1] == '\n' || ln[n - 1] == '\r')) ln[--n] = 0;
      if (n == 0 || ln[0] == '#') continue;
      if (strcmp(ln, "reset") == 0) {
        execs.emplace_back();
      } else {
        execs.back().push_back(ln);
      }
    }
    free(ln);
    fclose(f);
    if (execs.back().empty()) execs.pop_back();
  }
  OUT.open(argv[2]);
  OUT.line(configJson(std::make_index_sequence<static_cast<size_t>(K)>()));
  OUT.flush();
  // progress cell shared with the children
  volatile long *progress =
      static_cast<volatile long *>(mmap(nullptr, sizeof(long), PROT_READ | PROT_WRITE, MAP_SHARED | MAP_ANONYMOUS, -1, 0));
  size_t next = 0;
  int crashes = 0;
  while (next < execs.size()) {
    *progress = static_cast<long>(next);
    pid_t pid = fork();
    if (pid < 0) {
      perror("fork");
      return 2;
    }
    if (pid == 0) {
      installHandlers();
      size_t end = std::min(execs.size(), next + static_cast<size_t>(batch));
      for (size_t i = next; i < end; ++i) {
        *progress = static_cast<long>(i);
        alarm(30);
        // A line starting with '!' is a fault probe: the execution is repeated with the k-th throwing-capable event of
        // that call failing, k = 1, 2, ... until the call completes without a failure being injected.
        bool probe = false;
        for (const std::string &ln : execs[i]) probe = probe || ln[0] == '!';
        for (int k = probe ? 1 : 0; k <= 64; ++k) {
          bool injected = false;
          for (const std::string &ln : execs[i]) {
            Label lb;
            bool bang = ln[0] == '!';
            bool opt = ln[0] == '?';  // epilogue of a probe: only if the container (still) exists
            if (!parseLine(bang || opt ? ln.substr(1) : ln, lb)) {
              fprintf(stderr, "bad script line: %s\n", ln.c_str());
              _exit(2);
            }
            if (bang) lb.k = k;
            if (opt && !(lb.c >= 1 && lb.c <= K && exists(lb.c))) continue;
            g_lastInjected = false;
            execute(lb);
            if (bang) injected = g_lastInjected;
          }
          finishExecution();
          if (!probe || !injected) break;
        }
      }
      alarm(0);
      OUT.flush();
      _exit(0);
    }
    int status = 0;
    waitpid(pid, &status, 0);
    size_t end = std::min(execs.size(), next + static_cast<size_t>(batch));
    if (WIFEXITED(status) && WEXITSTATUS(status) == 0) {
      next = end;
    } else if (WIFEXITED(status) && WEXITSTATUS(status) == 2) {
      return 2;
    } else {
      // the child died inside execution *progress (its handler wrote the crash event when it could)
      ++crashes;
      if (!(WIFEXITED(status) && WEXITSTATUS(status) == 40)) {
        // killed without a chance to report (e.g. SIGKILL): report the execution as aborted
        const char *t = "{\"e\":\"op\",\"lbl\":{\"op\":\"unknown\",\"c\":0,\"d\":0,\"pos\":0,\"n\":0,\"v\":0,\"src\":0,"
                        "\"it\":\"\",\"vs\":[],\"k\":0},\"ret\":{\"k\":\"crash\",\"i\":0,\"s\":\"killed\"},\"obs\":[],"
                        "\"prims\":[],\"allocs\":[],\"gm\":0,\"te\":0}\n{\"e\":\"abort\"}\n";
        lseek(OUT.fd, 0, SEEK_END);
        ssize_t w = ::write(OUT.fd, t, strlen(t));
        (void)w;
      }
      next = static_cast<size_t>(*progress) + 1;
    }
    lseek(OUT.fd, 0, SEEK_END);
  }
  fprintf(stderr, "executions=%zu crashes=%d\n", execs.size(), crashes);
  return 0;
}
