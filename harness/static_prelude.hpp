// C17: element types of a given size / alignment / category, and the expectations' plumbing.
#pragma once
#include <amc/fixedcapacityvector.hpp>
#include <amc/flatset.hpp>
#include <amc/smallvector.hpp>
#include <amc/type_traits.hpp>
#include <amc/vector.hpp>
#if __cplusplus >= 201703L
#include <amc/smallset.hpp>
#include <set>
#endif
#include <type_traits>
#include <utility>

namespace vs {
template <int Size, int Align>
struct Bytes {
  alignas(Align) unsigned char b[Size];
};
// Cat: 0 trivial, 1 optout, 2 tr, 3 ntr, 4 throwmove, 5 throwasg, 6 ntrtd
template <int Size, int Align, int Cat>
struct S;
template <int Size, int Align>
struct S<Size, Align, 0> {
  Bytes<Size, Align> d;
};
template <int Size, int Align>
struct S<Size, Align, 1> {
  typedef std::false_type trivially_relocatable;
  Bytes<Size, Align> d;
};
template <int Size, int Align>
struct S<Size, Align, 2> {
  typedef std::true_type trivially_relocatable;
  Bytes<Size, Align> d;
  S() {}
  S(const S &o) : d(o.d) {}
  S(S &&o) noexcept : d(o.d) {}
  S &operator=(const S &o) { d = o.d; return *this; }
  S &operator=(S &&o) noexcept { d = o.d; return *this; }
  ~S() {}
};
template <int Size, int Align>
struct S<Size, Align, 3> {
  Bytes<Size, Align> d;
  S() {}
  S(const S &o) : d(o.d) {}
  S(S &&o) noexcept : d(o.d) {}
  S &operator=(const S &o) { d = o.d; return *this; }
  S &operator=(S &&o) noexcept { d = o.d; return *this; }
  ~S() {}
};
template <int Size, int Align>
struct S<Size, Align, 4> {
  Bytes<Size, Align> d;
  S() {}
  S(const S &o) : d(o.d) {}
  S(S &&o) : d(o.d) {}
  S &operator=(const S &o) { d = o.d; return *this; }
  S &operator=(S &&o) { d = o.d; return *this; }
  ~S() {}
};
template <int Size, int Align>
struct S<Size, Align, 5> {
  Bytes<Size, Align> d;
  S() {}
  S(const S &o) : d(o.d) {}
  S(S &&o) noexcept : d(o.d) {}
  S &operator=(const S &o) { d = o.d; return *this; }
  S &operator=(S &&o) { d = o.d; return *this; }
  ~S() {}
};
template <int Size, int Align>
struct S<Size, Align, 6> {  // user-provided copy / move operations, NO destructor: trivially destructible, not relocatable
  Bytes<Size, Align> d;
  S() {}
  S(const S &o) : d(o.d) {}
  S(S &&o) noexcept : d(o.d) {}
  S &operator=(const S &o) { d = o.d; return *this; }
  S &operator=(S &&o) noexcept { d = o.d; return *this; }
};
template <class T, unsigned long long N>
struct FCV {
  typedef amc::FixedCapacityVector<T, N> type;
};
// comparators: relocatable (empty, trivially copyable) and not
struct CmpTR {
  template <class A>
  bool operator()(const A &, const A &) const { return false; }
};
struct CmpNTR {
  CmpNTR() {}
  CmpNTR(const CmpNTR &) {}
  template <class A>
  bool operator()(const A &, const A &) const { return false; }
};
}  // namespace vs
