// Recorder, instrumented element / allocator / iterator / comparator types shared by all conformance harnesses.
// The harness contains NO expected values: it executes labels on the real containers and records what it observes.
// TLC, evaluating the specification on the recording, is the only judge.
#pragma once
#include <algorithm>
#include <cstddef>
#include <cstdint>
#include <cstdio>
#include <cstdlib>
#include <cstring>
#include <exception>
#include <iterator>
#include <list>
#include <new>
#include <stdexcept>
#include <string>
#include <type_traits>
#include <unordered_map>
#include <utility>
#include <vector>

#include <fcntl.h>
#include <signal.h>
#include <sys/mman.h>
#include <sys/wait.h>
#include <unistd.h>

namespace vh {

struct Injected : std::exception {
  const char *what() const noexcept override { return "injected"; }
};

// ---------------------------------------------------------------------------------------------------------------
// Recorder
struct Rec {
  std::string prims;   // JSON array items: element life-cycle events since the last op event
  std::string allocs;  // JSON array items: allocator events since the last op event
  std::string cmps;    // unused by vectors
  long gm = 0;         // global allocation requests inside the op window (malloc/new not made by the recorder)
  int internal = 0;    // > 0 while the recorder itself (or harness set-up code) allocates
  bool window = false; // true only while the library call runs
  int throwBudget = 0; // 0: disarmed; n > 0: the n-th throwing-capable event throws
  int throwEvents = 0; // throwing-capable events seen since arm()
  bool thrownByMove = false; // the injected exception came out of a move constructor / move assignment
  long cmpCalls = 0;
  std::unordered_map<const void *, int> tok;
  int nextTok = 1;
  int nextId = 1;

  int token(const void *p) {
    if (p == nullptr) return 0;
    ++internal;
    auto it = tok.find(p);
    int t;
    if (it == tok.end()) {
      t = nextTok++;
      tok.emplace(p, t);
    } else {
      t = it->second;
    }
    --internal;
    return t;
  }
  void resetTokens() {
    ++internal;
    tok.clear();
    nextTok = 1;
    nextId = 1;
    --internal;
  }
  void prim(const char *kind, int id, const void *at, int sid, const void *sat) {
    ++internal;
    char buf[96];
    int n = snprintf(buf, sizeof buf, "%s[\"%s\",%d,%d,%d,%d]", prims.empty() ? "" : ",", kind, id, token(at), sid,
                     token(sat));
    prims.append(buf, n);
    --internal;
  }
  // tag: identifies the allocator TYPE the event comes from (a block goes back to the type it came from)
  void alloc(const char *kind, const void *p1, const void *p2, long n1, long n2, long live, int tag = 0) {
    ++internal;
    char buf[160];
    int n = snprintf(buf, sizeof buf, "%s[\"%s\",%d,%d,%ld,%ld,%ld,%d]", allocs.empty() ? "" : ",", kind, token(p1),
                     token(p2), n1, n2, live, tag);
    allocs.append(buf, n);
    --internal;
  }
  void arm(int k) {
    throwBudget = k;
    throwEvents = 0;
    thrownByMove = false;
  }
  void disarm() { throwBudget = 0; }
  // a throwing-capable event of an element (construction / copy / copy assignment)
  void maybeThrow(bool byMove = false) {
    ++throwEvents;
    if (throwBudget > 0 && --throwBudget == 0) {
      thrownByMove = byMove;
      throw Injected();
    }
  }
  // a throwing-capable event of an allocator
  void maybeThrowAlloc() {
    ++throwEvents;
    if (throwBudget > 0 && --throwBudget == 0) throw std::bad_alloc();
  }
};
inline Rec R;

// FNV-1a over the object representation (C20: a const operation leaves the bytes of the container unchanged)
inline long repHash(const void *p, size_t n) {
  const unsigned char *b = static_cast<const unsigned char *>(p);
  unsigned long long h = 1469598103934665603ULL;
  for (size_t i = 0; i < n; ++i) {
    h ^= b[i];
    h *= 1099511628211ULL;
  }
  return static_cast<long>(h % 1000000007ULL);
}

struct Internal {  // RAII: allocations made inside are the harness's own
  Internal() { ++R.internal; }
  ~Internal() { --R.internal; }
};

inline void noteGlobalAlloc() {
  if (R.window && R.internal == 0) ++R.gm;
}

// ---------------------------------------------------------------------------------------------------------------
// Element types.  v is the value the specification talks about; id identifies the OBJECT (fresh for every
// construction, carried along by a byte copy); mv is set when the object has been moved from.
struct ETC {  // trivially copyable: no events can be recorded
  int v;
  ETC() = default;
  ETC(int x) : v(x) {}
  friend bool operator==(const ETC &a, const ETC &b) { return a.v == b.v; }
  friend bool operator!=(const ETC &a, const ETC &b) { return a.v != b.v; }
  friend bool operator<(const ETC &a, const ETC &b) { return a.v < b.v; }
#if __cplusplus >= 202002L
  friend auto operator<=>(const ETC &a, const ETC &b) { return a.v <=> b.v; }
#endif
  int id_() const { return 0; }
  int mv_() const { return 0; }
  void heal_() const {}
  void check_() const {}
};
static_assert(std::is_trivially_copyable<ETC>::value, "");

struct ETC1 {  // one byte, trivially copyable: 8 of them share the storage of a pointer
  signed char v;
  ETC1() = default;
  ETC1(int x) : v(static_cast<signed char>(x)) {}
  friend bool operator==(const ETC1 &a, const ETC1 &b) { return a.v == b.v; }
  friend bool operator!=(const ETC1 &a, const ETC1 &b) { return a.v != b.v; }
  friend bool operator<(const ETC1 &a, const ETC1 &b) { return a.v < b.v; }
#if __cplusplus >= 202002L
  friend auto operator<=>(const ETC1 &a, const ETC1 &b) { return a.v <=> b.v; }
#endif
  int id_() const { return 0; }
  int mv_() const { return 0; }
  void heal_() const {}
  void check_() const {}
};

struct RelocTag {
  using trivially_relocatable = std::true_type;
};
struct NoTag {};

template <bool Reloc, bool NoexceptMove = true, bool NoexceptMoveAsg = NoexceptMove>
struct EObj : std::conditional<Reloc, RelocTag, NoTag>::type {
  int v;
  int id;
  int mv;
  const EObj *self;  // checked only when the type is not relocatable

  void check_() const {
    if (!Reloc && self != this) R.prim("badself", id, this, 0, self);
  }
  EObj() : v(0), mv(0), self(this) {
    R.maybeThrow();
    id = R.nextId++;
    R.prim("ctor", id, this, 0, nullptr);
  }
  EObj(int x) : v(x), mv(0), self(this) {
    R.maybeThrow();
    id = R.nextId++;
    R.prim("ctor", id, this, 0, nullptr);
  }
  EObj(const EObj &o) : v(o.v), mv(o.mv), self(this) {
    o.check_();
    R.maybeThrow();
    id = R.nextId++;
    R.prim("cctor", id, this, o.id, &o);
  }
  EObj(EObj &&o) noexcept(NoexceptMove) : v(o.v), mv(o.mv), self(this) {
    o.check_();
    if (!NoexceptMove) R.maybeThrow(true);
    id = R.nextId++;
    R.prim("mctor", id, this, o.id, &o);
    o.v = -1;
    o.mv = 1;
  }
  EObj &operator=(const EObj &o) {
    check_();
    o.check_();
    R.maybeThrow();
    R.prim("casg", id, this, o.id, &o);
    v = o.v;
    mv = o.mv;
    return *this;
  }
  EObj &operator=(EObj &&o) noexcept(NoexceptMoveAsg) {
    check_();
    o.check_();
    if (!NoexceptMoveAsg) R.maybeThrow(true);
    // a self move assignment of an object whose value has already been taken (the middle step of std::swap(x, x))
    // is harmless; one of an object holding a value is what property C02 forbids
    R.prim(this == &o && mv ? "masg_self_mf" : "masg", id, this, o.id, &o);
    if (this != &o) {
      v = o.v;
      mv = o.mv;
      o.v = -1;
      o.mv = 1;
    } else if (!mv) {
      // like std::string / std::vector, the value does not survive a self move assignment
      v = -1;
      mv = 1;
    }
    return *this;
  }
  ~EObj() {
    check_();
    R.prim("dtor", id, this, 0, nullptr);
    *const_cast<volatile int *>(&v) = -2;  // the value does not survive the object (volatile: not a dead store)
  }
  friend bool operator==(const EObj &a, const EObj &b) { return a.v == b.v; }
  friend bool operator!=(const EObj &a, const EObj &b) { return a.v != b.v; }
  friend bool operator<(const EObj &a, const EObj &b) { return a.v < b.v; }
#if __cplusplus >= 202002L
  friend auto operator<=>(const EObj &a, const EObj &b) { return a.v <=> b.v; }
#endif
  int id_() const { return id; }
  int mv_() const { return mv; }
  void heal_() const { const_cast<EObj *>(this)->mv = 0; }
};
using ETR = EObj<true>;     // declares itself trivially relocatable, not trivially copyable
using ENTR = EObj<false>;   // neither: may only be moved through its own operations (self pointer)
using ENTRM = EObj<false, false>;  // same, and its move operations may throw
using ENTRA = EObj<false, true, false>;  // same, but only its move ASSIGNMENT may throw (noexcept move constructor)

// ---------------------------------------------------------------------------------------------------------------
// Allocators.  All memory comes from malloc; every request / release is logged in BYTES.
struct LedBasic {  // "basic allocator" for amc::BasicAllocatorWrapper: the real amc::allocator code path
  void *allocate(size_t n) {
    R.maybeThrowAlloc();
    void *p = std::malloc(n ? n : 1);
    R.alloc("alloc", p, nullptr, static_cast<long>(n), 0, -1);
    return p;
  }
  void *reallocate(void *p, size_t oldSz, size_t newSz) {
    R.maybeThrowAlloc();
    // never in place, and the old block is poisoned: a caller that keeps using it is found out
    void *q = std::malloc(newSz ? newSz : 1);
    if (p) {
      std::memcpy(q, p, oldSz < newSz ? oldSz : newSz);
      std::memset(p, 0xDD, oldSz);
      std::free(p);
    }
    R.alloc("realloc", p, q, static_cast<long>(oldSz), static_cast<long>(newSz), -1);
    return q;
  }
  void deallocate(void *p, size_t n) {
    R.alloc("dealloc", p, nullptr, static_cast<long>(n), 0, -1);
    if (p) std::memset(p, 0xDD, n);
    std::free(p);
  }
};

template <class T, int Tag = 0>
struct StdLike {  // standard allocator without reallocate (Tag: distinct allocator TYPES for swap2 between allocators)
  using value_type = T;
  using size_type = size_t;
  using difference_type = ptrdiff_t;
  using pointer = T *;
  using const_pointer = const T *;
  StdLike() = default;
  template <class U>
  StdLike(const StdLike<U, Tag> &) {}
  T *allocate(size_t n) {
    R.maybeThrowAlloc();
    T *p = static_cast<T *>(std::malloc(n * sizeof(T) ? n * sizeof(T) : 1));
    R.alloc("alloc", p, nullptr, static_cast<long>(n * sizeof(T)), 0, -1, Tag);
    return p;
  }
  void deallocate(T *p, size_t n) {
    R.alloc("dealloc", p, nullptr, static_cast<long>(n * sizeof(T)), 0, -1, Tag);
    if (p) std::memset(static_cast<void *>(p), 0xDD, n * sizeof(T));
    std::free(p);
  }
  template <class U>
  struct rebind {
    using other = StdLike<U, Tag>;
  };
  template <class U>
  bool operator==(const StdLike<U, Tag> &) const {
    return true;
  }
  template <class U>
  bool operator!=(const StdLike<U, Tag> &) const {
    return false;
  }
};

template <class T>
struct WithRealloc : StdLike<T> {  // standard allocator offering the optional reallocate of amc
  WithRealloc() = default;
  template <class U>
  WithRealloc(const WithRealloc<U> &) {}
  T *reallocate(T *p, size_t oldCap, size_t newCap, size_t nLive) {
    R.maybeThrowAlloc();
    T *q = static_cast<T *>(std::malloc(newCap * sizeof(T) ? newCap * sizeof(T) : 1));
    if (p) {
      std::memcpy(static_cast<void *>(q), static_cast<const void *>(p), nLive * sizeof(T));
      std::memset(static_cast<void *>(p), 0xDD, oldCap * sizeof(T));
      std::free(p);
    }
    R.alloc("realloc", p, q, static_cast<long>(oldCap * sizeof(T)), static_cast<long>(newCap * sizeof(T)),
            static_cast<long>(nLive));
    return q;
  }
  template <class U>
  struct rebind {
    using other = WithRealloc<U>;
  };
};

// ---------------------------------------------------------------------------------------------------------------
// Iterators over a source array of E
template <class E>
struct InputIt {  // single pass: all copies share the position; a second pass or a read of a consumed slot is logged
  using iterator_category = std::input_iterator_tag;
  using value_type = E;
  using difference_type = ptrdiff_t;
  using pointer = const E *;
  using reference = const E &;
  struct Shared {
    const E *base;
    size_t pos;
    size_t n;
  };
  Shared *sh;
  size_t my;  // position this copy believes it is at
  bool isEnd;
  InputIt(Shared *s, bool end) : sh(s), my(end ? s->n : 0), isEnd(end) {}
  reference operator*() const {
    if (my != sh->pos) R.prim("badread", 0, nullptr, static_cast<int>(my), nullptr);
    return sh->base[my < sh->n ? my : 0];
  }
  pointer operator->() const { return &**this; }
  InputIt &operator++() {
    if (my != sh->pos) R.prim("badread", 0, nullptr, static_cast<int>(my), nullptr);
    ++sh->pos;
    my = sh->pos;
    return *this;
  }
  InputIt operator++(int) {
    InputIt t(*this);
    ++*this;
    return t;
  }
  friend bool operator==(const InputIt &a, const InputIt &b) {
    // (a copy that was advanced past the end by a misuse of the single pass range compares equal to the end)
    size_t pa = a.isEnd || a.my > a.sh->n ? a.sh->n : a.my, pb = b.isEnd || b.my > b.sh->n ? b.sh->n : b.my;
    return pa == pb;
  }
  friend bool operator!=(const InputIt &a, const InputIt &b) { return !(a == b); }
};

template <class E, class Cat>
struct WrapIt {  // forward / random access iterator that is not a pointer
  using iterator_category = Cat;
  using value_type = E;
  using difference_type = ptrdiff_t;
  using pointer = const E *;
  using reference = const E &;
  const E *p;
  WrapIt() : p(nullptr) {}
  explicit WrapIt(const E *q) : p(q) {}
  reference operator*() const { return *p; }
  pointer operator->() const { return p; }
  WrapIt &operator++() {
    ++p;
    return *this;
  }
  WrapIt operator++(int) {
    WrapIt t(*this);
    ++p;
    return t;
  }
  WrapIt &operator--() {
    --p;
    return *this;
  }
  WrapIt operator--(int) {
    WrapIt t(*this);
    --p;
    return t;
  }
  WrapIt &operator+=(difference_type n) {
    p += n;
    return *this;
  }
  WrapIt &operator-=(difference_type n) {
    p -= n;
    return *this;
  }
  friend WrapIt operator+(WrapIt a, difference_type n) { return WrapIt(a.p + n); }
  friend WrapIt operator+(difference_type n, WrapIt a) { return WrapIt(a.p + n); }
  friend WrapIt operator-(WrapIt a, difference_type n) { return WrapIt(a.p - n); }
  friend difference_type operator-(WrapIt a, WrapIt b) { return a.p - b.p; }
  reference operator[](difference_type n) const { return p[n]; }
  friend bool operator==(WrapIt a, WrapIt b) { return a.p == b.p; }
  friend bool operator!=(WrapIt a, WrapIt b) { return a.p != b.p; }
  friend bool operator<(WrapIt a, WrapIt b) { return a.p < b.p; }
  friend bool operator>(WrapIt a, WrapIt b) { return a.p > b.p; }
  friend bool operator<=(WrapIt a, WrapIt b) { return a.p <= b.p; }
  friend bool operator>=(WrapIt a, WrapIt b) { return a.p >= b.p; }
};

// ---------------------------------------------------------------------------------------------------------------
// Output: one ndjson line per event; crash isolation through fork (see Runner)
struct Out {
  int fd = -1;
  std::string buf;
  void open(const char *path) {
    fd = ::open(path, O_WRONLY | O_CREAT | O_TRUNC, 0644);
    if (fd < 0) {
      perror("open trace");
      _exit(2);
    }
  }
  void flush() {
    size_t off = 0;
    while (off < buf.size()) {
      ssize_t w = ::write(fd, buf.data() + off, buf.size() - off);
      if (w <= 0) break;
      off += static_cast<size_t>(w);
    }
    buf.clear();
  }
  void line(const std::string &s) {
    Internal g;
    buf += s;
    buf += '\n';
    if (buf.size() > (1u << 20)) flush();
  }
};
inline Out OUT;

// label of the operation in flight (pre-serialised so that a signal handler can report it)
inline char g_inflight[1024];
inline volatile sig_atomic_t g_inflightValid = 0;

inline void crashHandler(int sig) {
  const char *name = sig == SIGSEGV ? "SIGSEGV" : sig == SIGABRT ? "SIGABRT" : sig == SIGBUS ? "SIGBUS"
                   : sig == SIGALRM ? "timeout" : sig == SIGFPE ? "SIGFPE" : sig == SIGILL ? "SIGILL" : "signal";
  OUT.flush();
  if (g_inflightValid) {
    char tail[1400];
    int n = snprintf(tail, sizeof tail,
                     "{\"e\":\"op\",\"lbl\":%s,\"ret\":{\"k\":\"crash\",\"i\":0,\"s\":\"%s\"},\"obs\":[],\"prims\":[],"
                     "\"allocs\":[],\"gm\":0,\"te\":0}\n{\"e\":\"abort\"}\n",
                     g_inflight, name);
    ssize_t w = ::write(OUT.fd, tail, static_cast<size_t>(n));
    (void)w;
  } else {
    const char *t = "{\"e\":\"abort\"}\n";
    ssize_t w = ::write(OUT.fd, t, strlen(t));
    (void)w;
  }
  _exit(40);
}

inline void terminateHandler() { crashHandler(SIGABRT); }

inline void installHandlers() {
  std::set_terminate(terminateHandler);
  struct sigaction sa;
  memset(&sa, 0, sizeof sa);
  sa.sa_handler = crashHandler;
  static char altstack[1 << 16];
  stack_t ss;
  ss.ss_sp = altstack;
  ss.ss_size = sizeof altstack;
  ss.ss_flags = 0;
  sigaltstack(&ss, nullptr);
  sa.sa_flags = SA_ONSTACK;
  for (int s : {SIGSEGV, SIGABRT, SIGBUS, SIGALRM, SIGFPE, SIGILL}) sigaction(s, &sa, nullptr);
}

}  // namespace vh

// ---------------------------------------------------------------------------------------------------------------
// Global allocation counting (C05: FixedCapacityVector / pristine SmallVector / inline SmallSet allocate nothing)
#ifdef VH_COUNT_GLOBAL_ALLOCS
extern "C" {
void *__libc_malloc(size_t);
void *__libc_realloc(void *, size_t);
void *__libc_calloc(size_t, size_t);
void *malloc(size_t n) {
  vh::noteGlobalAlloc();
  return __libc_malloc(n);
}
void *realloc(void *p, size_t n) {
  vh::noteGlobalAlloc();
  return __libc_realloc(p, n);
}
void *calloc(size_t a, size_t b) {
  vh::noteGlobalAlloc();
  return __libc_calloc(a, b);
}
}
void *operator new(std::size_t n) {
  void *p = std::malloc(n ? n : 1);
  if (!p) throw std::bad_alloc();
  return p;
}
void *operator new[](std::size_t n) {
  void *p = std::malloc(n ? n : 1);
  if (!p) throw std::bad_alloc();
  return p;
}
void operator delete(void *p) noexcept { std::free(p); }
void operator delete[](void *p) noexcept { std::free(p); }
void operator delete(void *p, std::size_t) noexcept { std::free(p); }
void operator delete[](void *p, std::size_t) noexcept { std::free(p); }
#endif
