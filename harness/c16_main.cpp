// C16: a C++11-clean interpreter of vector labels producing an op-level transcript (return value, contents, size,
// capacity, inline flag) in the ndjson format of vec_main.cpp, built under every cell of the matrix
// {c++11,14,17,20} x {AMC_NONSTD_FEATURES on/off} x {NDEBUG, assertions} x {-O0,-O2}.  Transcripts must be identical
// across cells, and each one must be accepted by TLC (TraceVec.tla).
//   -DC16_TYPE=<1..5>   1 amc::vector<El>  2 amc::SmallVector<El,2>  3 amc::FixedCapacityVector<El,6>
//                       4 amc::vector<Tc>  5 amc::SmallVector<Tc,3>
#include <amc/fixedcapacityvector.hpp>
#include <amc/smallvector.hpp>
#include <amc/vector.hpp>

#include <cstdio>
#include <cstdlib>
#include <cstring>
#include <initializer_list>
#include <iterator>
#include <new>
#include <stdexcept>
#include <string>
#include <vector>
#if __cplusplus >= 202002L
#include <compare>
#endif

struct El {  // neither trivially copyable nor declared relocatable
  int v;
  El() : v(0) {}
  El(int x) : v(x) {}
  El(const El &o) : v(o.v) {}
  El(El &&o) noexcept : v(o.v) { o.v = -1; }
  El &operator=(const El &o) {
    v = o.v;
    return *this;
  }
  El &operator=(El &&o) noexcept {
    v = o.v;
    if (this != &o) o.v = -1;
    return *this;
  }
  ~El() { v = -2; }
};
struct Tc {  // trivially copyable
  int v;
  Tc() = default;
  Tc(int x) : v(x) {}
};
inline bool operator==(const El &a, const El &b) { return a.v == b.v; }
inline bool operator!=(const El &a, const El &b) { return a.v != b.v; }
inline bool operator<(const El &a, const El &b) { return a.v < b.v; }
inline bool operator==(const Tc &a, const Tc &b) { return a.v == b.v; }
inline bool operator!=(const Tc &a, const Tc &b) { return a.v != b.v; }
inline bool operator<(const Tc &a, const Tc &b) { return a.v < b.v; }
#if __cplusplus >= 202002L
#include <compare>
inline auto operator<=>(const El &a, const El &b) { return a.v <=> b.v; }
inline auto operator<=>(const Tc &a, const Tc &b) { return a.v <=> b.v; }
#endif

struct Big {  // larger than a pointer, not trivially copyable
  int v;
  long pad[2];
  Big() : v(0) { pad[0] = pad[1] = 7; }
  Big(int x) : v(x) { pad[0] = pad[1] = 7; }
  Big(const Big &o) : v(o.v) { pad[0] = pad[1] = 7; }
  Big(Big &&o) noexcept : v(o.v) {
    pad[0] = pad[1] = 7;
    o.v = -1;
  }
  Big &operator=(const Big &o) {
    v = o.v;
    return *this;
  }
  Big &operator=(Big &&o) noexcept {
    v = o.v;
    if (this != &o) o.v = -1;
    return *this;
  }
  ~Big() { v = -2; }
};
inline bool operator==(const Big &a, const Big &b) { return a.v == b.v; }
inline bool operator!=(const Big &a, const Big &b) { return a.v != b.v; }
inline bool operator<(const Big &a, const Big &b) { return a.v < b.v; }
#if __cplusplus >= 202002L
inline auto operator<=>(const Big &a, const Big &b) { return a.v <=> b.v; }
#endif

// value of an element / write access to it (type 7 is a raw 1-byte integer, not a class)
template <class X>
inline int getv(const X &x) { return x.v; }
inline int getv(signed char x) { return x; }
template <class X>
inline void setv(X &x, int v) { x.v = v; }
inline void setv(signed char &x, int v) { x = static_cast<signed char>(v); }

#ifndef C16_TYPE
#define C16_TYPE 2
#endif
#if C16_TYPE == 1
typedef El E;
typedef amc::vector<E> T;
static const char *kFlav = "vector";
static const long kN = 0;
static const char *kElem = "TC";
#elif C16_TYPE == 2
typedef El E;
typedef amc::SmallVector<E, 2> T;
static const char *kFlav = "small";
static const long kN = 2;
static const char *kElem = "TC";
#elif C16_TYPE == 3
typedef El E;
typedef amc::FixedCapacityVector<E, 6> T;
static const char *kFlav = "fixed";
static const long kN = 6;
static const char *kElem = "TC";
#elif C16_TYPE == 4
typedef Tc E;
typedef amc::vector<E> T;
static const char *kFlav = "vector";
static const long kN = 0;
static const char *kElem = "TC";
#elif C16_TYPE == 5
typedef Tc E;
typedef amc::SmallVector<E, 3> T;
static const char *kFlav = "small";
static const long kN = 3;
static const char *kElem = "TC";
#elif C16_TYPE == 6
typedef Big E;
typedef amc::SmallVector<E, 2> T;
static const char *kFlav = "small";
static const long kN = 2;
static const char *kElem = "TC";
#else
typedef signed char E;  // a raw 1-byte integral element (the values of its walks include negative ones)
typedef amc::vector<E> T;
static const char *kFlav = "vector";
static const long kN = 0;
static const char *kElem = "TC";
#endif
typedef T::size_type SZ;

// single pass input iterator over an array, with the semantics of std::istream_iterator: all copies share ONE position
// (advancing any copy consumes the source for all of them), each iterator object keeps designating the element it read
struct InShared {
  const E *base;
  size_t pos, n;
};
struct InIt {
  typedef std::input_iterator_tag iterator_category;
  typedef E value_type;
  typedef std::ptrdiff_t difference_type;
  typedef const E *pointer;
  typedef const E &reference;
  InShared *s;
  const E *val;
  bool end;
  InIt(InShared *sh, bool e) : s(sh), val(sh->base + (sh->pos < sh->n ? sh->pos : 0)), end(e) {}
  reference operator*() const { return *val; }
  pointer operator->() const { return val; }
  InIt &operator++() {
    ++s->pos;
    val = s->base + (s->pos < s->n ? s->pos : 0);
    return *this;
  }
  InIt operator++(int) {
    InIt t(*this);
    ++*this;
    return t;
  }
  bool atEnd() const { return end || s->pos >= s->n; }
  friend bool operator==(const InIt &a, const InIt &b) { return a.atEnd() == b.atEnd(); }
  friend bool operator!=(const InIt &a, const InIt &b) { return a.atEnd() != b.atEnd(); }
};

struct Label {
  std::string op, it;
  int c, d, pos, n, v, src, k;
  std::vector<int> vs;
};
struct Result {
  std::string k, s;
  long i;
  Result() : k("none"), i(0) {}
  void idx(long x) { k = "idx", i = x; }
  void val(long x) { k = "val", i = x; }
  void boolean(bool b) { k = "bool", i = b ? 1 : 0; }
};

static T *g_slot[3] = {0, 0, 0};
static void *g_raw[3] = {0, 0, 0};

// the object lives in a block followed by a guard zone: writing past the object is observed, not undefined luck
static const size_t kGuard = 64;
static void *fresh() {
  void *r = 0;
  if (posix_memalign(&r, alignof(T) < sizeof(void *) ? sizeof(void *) : alignof(T), sizeof(T) + kGuard) != 0) exit(2);
  memset(static_cast<char *>(r) + sizeof(T), 0xA5, kGuard);
  return r;
}
static bool guardsIntact() {
  for (int c = 1; c <= 2; ++c)
    if (g_raw[c])
      for (size_t i = 0; i < kGuard; ++i)
        if (static_cast<unsigned char *>(g_raw[c])[sizeof(T) + i] != 0xA5) return false;
  return true;
}

static std::initializer_list<E> g_noil;

static void exec(const Label &lb, Result &r) {
  const std::string &op = lb.op;
  int c = lb.c, d = lb.d;
  std::vector<E> src;
  for (size_t i = 0; i < lb.vs.size(); ++i) src.push_back(E(lb.vs[i]));
  const E *sb = src.empty() ? static_cast<const E *>(0) : &src[0];
  const E *se = sb + src.size();
  static const E kNone(0);
  InShared ish = {sb ? sb : &kNone, 0, src.size()};
  bool input = lb.it == "input";
  if (op.compare(0, 4, "ctor") == 0) {
    void *w = fresh();
    try {
      if (op == "ctorDefault")
        g_slot[c] = new (w) T();
      else if (op == "ctorCount")
        g_slot[c] = new (w) T(static_cast<SZ>(lb.n));
      else if (op == "ctorCountVal")
        g_slot[c] = new (w) T(static_cast<SZ>(lb.n), E(lb.v));
      else if (op == "ctorRange")
        g_slot[c] = input ? new (w) T(InIt(&ish, false), InIt(&ish, true)) : new (w) T(sb, se);
      else if (op == "ctorIlist") {
        if (src.size() == 0)
          g_slot[c] = new (w) T(std::initializer_list<E>());
        else if (src.size() == 1)
          g_slot[c] = new (w) T(std::initializer_list<E>{src[0]});
        else
          g_slot[c] = new (w) T(std::initializer_list<E>{src[0], src[1]});
      } else if (op == "ctorCopy")
        g_slot[c] = new (w) T(static_cast<const T &>(*g_slot[d]));
      else if (op == "ctorMove")
        g_slot[c] = new (w) T(std::move(*g_slot[d]));
      else {
        r.k = "unsupported";
        free(w);
        return;
      }
      g_raw[c] = w;
    } catch (...) {
      free(w);
      g_slot[c] = 0;
      throw;
    }
    return;
  }
  T &v = *g_slot[c];
  const T &cv = v;
  E tmp(lb.v);
  const E *arg = lb.src > 0 ? &v[static_cast<SZ>(lb.src - 1)] : &tmp;
  if (op == "destroy") {
    v.~T();
    free(g_raw[c]);
    g_slot[c] = 0;
    g_raw[c] = 0;
  } else if (op == "assignCopy") {
    v = static_cast<const T &>(*g_slot[d]);
  } else if (op == "assignMove") {
    v = std::move(*g_slot[d]);
  } else if (op == "assignIlist") {
    if (src.size() == 0)
      v.assign(std::initializer_list<E>());
    else if (src.size() == 1)
      v.assign({src[0]});
    else
      v.assign({src[0], src[1]});
  } else if (op == "assignOpIlist") {
    if (src.size() == 0)
      v = std::initializer_list<E>();
    else if (src.size() == 1)
      v = {src[0]};
    else
      v = {src[0], src[1]};
  } else if (op == "setIndex") {
    setv(v[static_cast<SZ>(lb.n)], lb.v);
  } else if (op == "setAt") {
    setv(v.at(static_cast<SZ>(lb.n)), lb.v);
  } else if (op == "setFront") {
    setv(v.front(), lb.v);
  } else if (op == "setBack") {
    setv(v.back(), lb.v);
  } else if (op == "setData") {
    setv(v.data()[lb.n], lb.v);
  } else if (op == "setIter") {
    setv(*(v.begin() + lb.n), lb.v);
  } else if (op == "setRIter") {
    setv(*(v.rbegin() + (static_cast<long>(v.size()) - 1 - lb.n)), lb.v);
  } else if (op == "maxSize") {
    unsigned long long mx = static_cast<unsigned long long>(cv.max_size());
    r.val(mx > 2000000000ULL ? 2000000000L : static_cast<long>(mx));
  } else if (op == "freeSwap") {
    amc::swap(v, *g_slot[d]);
  } else if (op == "assignN") {
    v.assign(static_cast<SZ>(lb.n), *arg);
  } else if (op == "assignRange") {
    if (input)
      v.assign(InIt(&ish, false), InIt(&ish, true));
    else
      v.assign(sb, se);
  } else if (op == "insert1") {
    T::iterator it = v.insert(v.begin() + lb.pos, *arg);
    r.idx(it - v.begin());
  } else if (op == "insert1rv") {
    T::iterator it = v.insert(v.begin() + lb.pos, std::move(tmp));
    r.idx(it - v.begin());
  } else if (op == "emplace") {
    T::iterator it = lb.src > 0 ? v.emplace(v.begin() + lb.pos, *arg) : v.emplace(v.begin() + lb.pos, lb.v);
    r.idx(it - v.begin());
  } else if (op == "emplaceF" && lb.src > 0) {
    T::iterator it = v.emplace(v.begin() + lb.pos, getv(*arg));
    r.idx(it - v.begin());
  } else if (op == "emplaceBackF" && lb.src > 0) {
    v.emplace_back(getv(*arg));
    r.val(getv(v.back()));
  } else if (op == "insertN") {
    T::iterator it = v.insert(v.begin() + lb.pos, static_cast<SZ>(lb.n), *arg);
    r.idx(it - v.begin());
  } else if (op == "insertRange") {
    T::iterator it = input ? v.insert(v.begin() + lb.pos, InIt(&ish, false), InIt(&ish, true)) : v.insert(v.begin() + lb.pos, sb, se);
    r.idx(it - v.begin());
  } else if (op == "insertIlist") {
    T::iterator it;
    if (src.size() == 0)
      it = v.insert(v.begin() + lb.pos, std::initializer_list<E>());
    else if (src.size() == 1)
      it = v.insert(v.begin() + lb.pos, {src[0]});
    else
      it = v.insert(v.begin() + lb.pos, {src[0], src[1]});
    r.idx(it - v.begin());
  } else if (op == "emplaceBack") {
    if (lb.src > 0)
      v.emplace_back(*arg);
    else
      v.emplace_back(lb.v);
    r.val(getv(v.back()));
  } else if (op == "pushBack") {
    v.push_back(*arg);
  } else if (op == "pushBackRv") {
    v.push_back(std::move(tmp));
  } else if (op == "popBack") {
    v.pop_back();
  } else if (op == "erase1") {
    T::iterator it = v.erase(v.begin() + lb.pos);
    r.idx(it - v.begin());
  } else if (op == "eraseRange") {
    T::iterator it = v.erase(v.begin() + lb.pos, v.begin() + lb.n);
    r.idx(it - v.begin());
  } else if (op == "resize") {
    v.resize(static_cast<SZ>(lb.n));
  } else if (op == "resizeVal") {
    v.resize(static_cast<SZ>(lb.n), *arg);
  } else if (op == "clear") {
    v.clear();
  } else if (op == "reserve") {
    v.reserve(static_cast<SZ>(lb.n));
  } else if (op == "shrinkToFit") {
    v.shrink_to_fit();
  } else if (op == "swap") {
    v.swap(*g_slot[d]);
  } else if (op == "at") {
    r.val(getv(cv.at(static_cast<SZ>(lb.n))));
  } else if (op == "index") {
    r.val(getv(cv[static_cast<SZ>(lb.n)]));
  } else if (op == "front") {
    r.val(getv(cv.front()));
  } else if (op == "back") {
    r.val(getv(cv.back()));
  } else if (op == "iterate") {
    long fw = 0, bw = 0, m = 1;
    for (T::const_iterator it = cv.begin(); it != cv.end(); ++it) fw = fw * 31 + getv(*it) + 1;
    for (T::const_reverse_iterator it = cv.rbegin(); it != cv.rend(); ++it) bw += (getv(*it) + 1) * m, m *= 31;
    r.val(fw == bw ? static_cast<long>(cv.end() - cv.begin()) : -1);
  } else if (op == "eq") {
    r.boolean(cv == *g_slot[d]);
  } else if (op == "ne") {
    r.boolean(cv != *g_slot[d]);
  } else if (op == "lt") {
    r.boolean(cv < *g_slot[d]);
  } else if (op == "le") {
    r.boolean(cv <= *g_slot[d]);
  } else if (op == "gt") {
    r.boolean(cv > *g_slot[d]);
  } else if (op == "ge") {
    r.boolean(cv >= *g_slot[d]);
#ifdef AMC_NONSTD_FEATURES
  } else if (op == "popBackVal") {
    E x = v.pop_back_val();
    r.val(getv(x));
  } else if (op == "appendN") {
    v.append(static_cast<SZ>(lb.n));
  } else if (op == "appendNVal") {
    v.append(static_cast<SZ>(lb.n), *arg);
  } else if (op == "appendRange") {
    if (input)
      v.append(InIt(&ish, false), InIt(&ish, true));
    else
      v.append(sb, se);
  } else if (op == "appendIlist") {
    if (src.size() == 0)
      v.append(std::initializer_list<E>());
    else if (src.size() == 1)
      v.append({src[0]});
    else
      v.append({src[0], src[1]});
  } else if (op == "swap2") {
    v.swap2(*g_slot[d]);
#endif
  } else {
    r.k = "unsupported";
  }
}

static std::string num(long x) {
  char b[32];
  snprintf(b, sizeof b, "%ld", x);
  return b;
}

static void observe(int c, std::string &out) {
  if (!g_slot[c]) {
    out += "{\"ex\":false}";
    return;
  }
  const T &v = *g_slot[c];
  const E *d = v.data();
  const char *lo = reinterpret_cast<const char *>(g_slot[c]), *hi = lo + sizeof(T);
  const char *dc = reinterpret_cast<const char *>(d);
  bool inl = d != 0 && dc >= lo && dc < hi;
  std::string vals, zeros;
  size_t n = static_cast<size_t>(v.size());
  for (size_t i = 0; i < n; ++i) {
    vals += (i ? "," : "") + num(getv(d[i]));
    zeros += i ? ",0" : "0";
  }
  unsigned long long mx = static_cast<unsigned long long>(v.max_size());
  out += "{\"ex\":true,\"size\":" + num(static_cast<long>(n)) + ",\"empty\":" + (v.empty() ? "true" : "false") + ",\"cap\":" +
         num(static_cast<long>(v.capacity())) + ",\"inl\":" + (inl ? "true" : "false") + ",\"buf\":" + (inl ? "1" : (d ? "2" : "0")) +
         ",\"maxsz\":" + num(mx > 2000000000ULL ? 2000000000L : static_cast<long>(mx)) + ",\"vals\":[" + vals + "],\"ids\":[" + zeros +
         "],\"toks\":[" + zeros + "],\"mv\":[" + zeros + "]}";
}

int main(int argc, char **argv) {
  if (argc < 3) return 2;
  FILE *in = fopen(argv[1], "r");
  FILE *out = fopen(argv[2], "w");
  if (!in || !out) return 2;
  unsigned long long mx = static_cast<unsigned long long>(std::numeric_limits<SZ>::max());
  fprintf(out,
          "{\"e\":\"config\",\"name\":\"c16_type%d\",\"elem\":\"%s\",\"esize\":%d,\"alloc\":\"amc\",\"std\":0,\"nxmove\":true,"
          "\"countsGlobal\":false,\"slots\":[{\"flav\":\"%s\",\"n\":%ld,\"maxsz\":%ld,\"ref\":false,\"tid\":1,\"aid\":%d,\"sizeof\":%d,"
          "\"reloc\":false},{\"flav\":\"%s\",\"n\":%ld,\"maxsz\":%ld,\"ref\":false,\"tid\":1,\"aid\":%d,\"sizeof\":%d,\"reloc\":false}]}\n",
          C16_TYPE, kElem, static_cast<int>(sizeof(E)), kFlav, kN, mx > 2000000000ULL ? 2000000000L : static_cast<long>(mx),
          C16_TYPE == 3 ? 0 : 1, static_cast<int>(sizeof(T)), kFlav, kN, mx > 2000000000ULL ? 2000000000L : static_cast<long>(mx),
          C16_TYPE == 3 ? 0 : 1, static_cast<int>(sizeof(T)));
  char *ln = 0;
  size_t cap = 0;
  ssize_t len;
  while ((len = getline(&ln, &cap, in)) > 0) {
    while (len > 0 && (ln[len - 1] == '\n' || ln[len - 1] == '\r')) ln[--len] = 0;
    if (len == 0) continue;
    if (strcmp(ln, "reset") == 0) {
      for (int c = 1; c <= 2; ++c) {
        if (g_slot[c]) {
          g_slot[c]->~T();
          free(g_raw[c]);
          g_slot[c] = 0;
          g_raw[c] = 0;
          std::string o1, o2;
          observe(1, o1);
          observe(2, o2);
          fprintf(out,
                  "{\"e\":\"op\",\"lbl\":{\"op\":\"destroy\",\"c\":%d,\"d\":0,\"pos\":0,\"n\":0,\"v\":0,\"src\":0,\"it\":\"\",\"vs\":[],\"k\":0},"
                  "\"ret\":{\"k\":\"none\",\"i\":0,\"s\":\"\"},\"obs\":[%s,%s],\"prims\":[],\"allocs\":[],\"gm\":0,\"te\":0}\n",
                  c, o1.c_str(), o2.c_str());
        }
      }
      fputs("{\"e\":\"reset\"}\n", out);
      continue;
    }
    Label lb;
    char op[64], it[32];
    int nvs = 0, off = 0;
    if (sscanf(ln, "%63s %d %d %d %d %d %d %31s %d %d%n", op, &lb.c, &lb.d, &lb.pos, &lb.n, &lb.v, &lb.src, it, &lb.k, &nvs, &off) < 10) return 2;
    lb.op = op;
    lb.it = it;
    const char *p = ln + off;
    for (int i = 0; i < nvs; ++i) {
      int x, o2;
      if (sscanf(p, "%d%n", &x, &o2) < 1) return 2;
      lb.vs.push_back(x);
      p += o2;
    }
    Result r;
    try {
      exec(lb, r);
    } catch (const std::out_of_range &) {
      r.k = "exc", r.i = 0, r.s = "out_of_range";
    } catch (const std::overflow_error &) {
      r.k = "exc", r.i = 0, r.s = "overflow_error";
    } catch (const std::exception &) {
      r.k = "exc", r.i = 0, r.s = "exception";
    }
    if (!guardsIntact()) {
      r.k = "crash", r.i = 0, r.s = "wrote outside the object";
      for (int c = 1; c <= 2; ++c)
        if (g_raw[c]) memset(static_cast<char *>(g_raw[c]) + sizeof(T), 0xA5, kGuard);
    }
    std::string vs;
    for (size_t i = 0; i < lb.vs.size(); ++i) vs += (i ? "," : "") + num(lb.vs[i]);
    std::string o1, o2;
    observe(1, o1);
    observe(2, o2);
    fprintf(out,
            "{\"e\":\"op\",\"lbl\":{\"op\":\"%s\",\"c\":%d,\"d\":%d,\"pos\":%d,\"n\":%d,\"v\":%d,\"src\":%d,\"it\":\"%s\",\"vs\":[%s],\"k\":0},"
            "\"ret\":{\"k\":\"%s\",\"i\":%ld,\"s\":\"%s\"},\"obs\":[%s,%s],\"prims\":[],\"allocs\":[],\"gm\":0,\"te\":0}\n",
            lb.op.c_str(), lb.c, lb.d, lb.pos, lb.n, lb.v, lb.src, lb.it == "-" ? "" : lb.it.c_str(), vs.c_str(), r.k.c_str(), r.i, r.s.c_str(),
            o1.c_str(), o2.c_str());
  }
  fclose(out);
  return 0;
}
