// C16: compile probes.  -DPROBE=<n> selects one use of a non-standard extra; the translation unit must compile with
// AMC_NONSTD_FEATURES and must NOT compile without it (the feature is absent rather than different).
#ifndef PROBE
#define PROBE 0
#endif
#if PROBE == 20
#include <amc/smallset.hpp>
int main() {
  amc::SmallSet<int, 4> s;
  s.insert(1);
  return static_cast<int>(s.size()) - 1;
}
#else
#include <amc/flatset.hpp>
#include <amc/smallvector.hpp>
#include <amc/vector.hpp>
int main() {
  amc::vector<int> v, w;
  amc::SmallVector<int, 3> sv;
  amc::FlatSet<int> s;
  (void)v, (void)w, (void)sv, (void)s;
#if PROBE == 1
  v.append(2);
#elif PROBE == 2
  v.push_back(1);
  (void)v.pop_back_val();
#elif PROBE == 3
  v.swap2(sv);
#elif PROBE == 4
  v.append(2, 7);
#elif PROBE == 5
  (void)s.data();
#elif PROBE == 6
  s.insert(1);
  (void)s[0];
#elif PROBE == 7
  s.insert(1);
  (void)s.at(0);
#elif PROBE == 8
  (void)s.capacity();
#elif PROBE == 9
  s.reserve(4);
#elif PROBE == 10
  s.shrink_to_fit();
#elif PROBE == 11
  amc::FlatSet<int> t(std::move(v));
  (void)t;
#elif PROBE == 12
  (void)s.steal_vector();
#endif
  return 0;
}
#endif
