// Conformance harness for FlatSet / SmallSet (and std::set as the reference implementation): an interpreter from
// specification labels (Sets.tla) to calls on the real containers, recording what it observes.  No expected values.
//
//   -DCFG_ELEM=<vh::ETC|vh::ETR|vh::ENTR>   -DCFG_ALLOC=<1..5>   -DCFG_NAME="..."
//   -DCFG_TYPES=<comma separated set types using E, A<E>, Cmp, Cmp2, CmpT>
#include <amc/fixedcapacityvector.hpp>
#include <amc/flatset.hpp>
#include <amc/smallset.hpp>
#include <amc/smallvector.hpp>
#include <amc/vector.hpp>

#include <memory>
#include <optional>
#include <set>
#include <tuple>
#include <typeinfo>
#include <vector>

#include "vh.hpp"

using namespace vh;

#ifndef CFG_ELEM
#define CFG_ELEM vh::ETC
#endif
#ifndef CFG_ALLOC
#define CFG_ALLOC 1
#endif
using E = CFG_ELEM;
#if CFG_ALLOC == 1
template <class T>
using A = amc::BasicAllocatorWrapper<T, vh::LedBasic>;
static const char *kAllocName = "amcled";
#elif CFG_ALLOC == 2
template <class T>
using A = vh::StdLike<T>;
static const char *kAllocName = "stdlike";
#elif CFG_ALLOC == 3
template <class T>
using A = vh::WithRealloc<T>;
static const char *kAllocName = "withrealloc";
#elif CFG_ALLOC == 4
template <class T>
using A = amc::allocator<T>;
static const char *kAllocName = "amc";
#else
template <class T>
using A = std::allocator<T>;
static const char *kAllocName = "std";
#endif

// a key type that is not the element type (heterogeneous lookup through a transparent comparator)
struct Key {
  int v;
};
// a key of COARSER granularity than the comparator: class c of width w is equivalent to every element e with (e / mod) / w == c
struct KeyC {
  int c;
  int w;  // width of the class
};
template <class X>
static int valOf(const X &x) {
  return static_cast<int>(x.v);
}

// Stateful comparator: desc / mod are the STATE of the object.  A default constructed one is ascending, mod 1, so a
// container that compares with a default constructed comparator instead of its own shows as a wrong result.
template <int TypeTag, bool Transparent>
struct CmpBase {
  bool desc = false;
  int mod = 1;
  CmpBase() = default;
  explicit CmpBase(int cm) : desc(cm == 1 || cm == 3), mod(cm >= 2 ? 2 : 1) {}
  bool lt(int a, int b) const {
    ++R.cmpCalls;
    return desc ? (b / mod) < (a / mod) : (a / mod) < (b / mod);
  }
  bool operator()(const E &a, const E &b) const { return lt(valOf(a), valOf(b)); }
  // the non const overload changes the STATE of the comparator object (part of the representation of the set): fine for
  // a mutating operation of the set, visible in the representation hash if a const operation ever reaches it
  long nonConstCalls = 0;
  bool operator()(const E &a, const E &b) {
    ++nonConstCalls;
    return lt(valOf(a), valOf(b));
  }
  template <bool T = Transparent, typename std::enable_if<T, int>::type = 0>
  bool operator()(const E &a, const Key &b) const {
    return lt(valOf(a), b.v);
  }
  template <bool T = Transparent, typename std::enable_if<T, int>::type = 0>
  bool operator()(const Key &a, const E &b) const {
    return lt(a.v, valOf(b));
  }
  template <bool T = Transparent, typename std::enable_if<T, int>::type = 0>
  bool operator()(const E &a, const KeyC &k) const {
    ++R.cmpCalls;
    int ca = (valOf(a) / mod) / k.w;
    return desc ? k.c < ca : ca < k.c;
  }
  template <bool T = Transparent, typename std::enable_if<T, int>::type = 0>
  bool operator()(const KeyC &k, const E &b) const {
    ++R.cmpCalls;
    int cb = (valOf(b) / mod) / k.w;
    return desc ? cb < k.c : k.c < cb;
  }
  int cm() const { return (desc ? 1 : 0) + (mod == 2 ? 2 : 0); }
};
struct Cmp : CmpBase<1, false> {
  using CmpBase<1, false>::CmpBase;
};
struct Cmp2 : CmpBase<2, false> {  // same behaviour, another TYPE (merge<C2>)
  using CmpBase<2, false>::CmpBase;
};
struct CmpT : CmpBase<3, true> {  // transparent
  using CmpBase<3, true>::CmpBase;
  using is_transparent = std::true_type;
};

// stateless (empty) comparator types, like std::less / std::greater: FlatSet::merge takes its linear path for them
struct CmpL {
  CmpL() = default;
  explicit CmpL(int) {}
  bool operator()(const E &a, const E &b) const {
    ++R.cmpCalls;
    return valOf(a) < valOf(b);
  }
  int cm() const { return 0; }
};
struct CmpG {
  CmpG() = default;
  explicit CmpG(int) {}
  bool operator()(const E &a, const E &b) const {
    ++R.cmpCalls;
    return valOf(b) < valOf(a);
  }
  int cm() const { return 1; }
};
static_assert(std::is_empty<CmpL>::value && std::is_empty<CmpG>::value, "");

#ifndef CFG_TYPES
#define CFG_TYPES amc::FlatSet<E, Cmp, A<E>>
#endif
#ifndef CFG_NAME
#define CFG_NAME "default"
#endif
#ifdef VH_COUNT_GLOBAL_ALLOCS
static const char *kCountsGlobal = "true";
#else
static const char *kCountsGlobal = "false";
#endif

using Types = std::tuple<CFG_TYPES>;
static constexpr int K = static_cast<int>(std::tuple_size<Types>::value);

// ---------------------------------------------------------------------------------------------------------------
template <class T>
struct STraits {  // std::set
  static const char *flav() { return "std"; }
  static long n() { return 0; }
  static constexpr bool flat = false, small = false;
};
template <class T, class C, class Al, class V>
struct STraits<amc::FlatSet<T, C, Al, V>> {
  static const char *flav() { return "flat"; }
  static long n() { return 0; }
  static constexpr bool flat = true, small = false;
};
template <class T, uintmax_t N, class C, class Al, class S>
struct STraits<amc::SmallSet<T, N, C, Al, S>> {
  static const char *flav() { return "small"; }
  static long n() { return static_cast<long>(N); }
  static constexpr bool flat = false, small = true;
};
template <class C>
struct CmpId {
  static constexpr int id = 0;
  static constexpr bool transparent = false;
};
template <>
struct CmpId<Cmp> {
  static constexpr int id = 1;
  static constexpr bool transparent = false;
};
template <>
struct CmpId<Cmp2> {
  static constexpr int id = 2;
  static constexpr bool transparent = false;
};
template <>
struct CmpId<CmpT> {
  static constexpr int id = 3;
  static constexpr bool transparent = true;
};
template <>
struct CmpId<CmpL> {
  static constexpr int id = 4;
  static constexpr bool transparent = false;
};
template <>
struct CmpId<CmpG> {
  static constexpr int id = 5;
  static constexpr bool transparent = false;
};

static const char *elemName() {
  return std::is_same<E, ETC>::value ? "TC" : std::is_same<E, ETR>::value ? "TR" : "NTR";
}

template <class T>
struct Slot {
  using type = T;
  using node_type = typename T::node_type;
  T *p = nullptr;
  void *raw = nullptr;
  std::optional<node_type> node;  // node handle extracted from this slot
  bool ex() const { return p != nullptr; }
  void *fresh() {
    Internal g;
    void *r = nullptr;
    if (posix_memalign(&r, alignof(T) < sizeof(void *) ? sizeof(void *) : alignof(T), sizeof(T)) != 0) _exit(2);
    return r;
  }
  template <class F>
  void construct(F &&f) {
    void *r = fresh();
    try {
      p = f(r);
      raw = r;
    } catch (...) {
      Internal g;
      std::free(r);
      p = nullptr;
      raw = nullptr;
      throw;
    }
  }
  void destroy() {
    p->~T();
    {
      Internal g;
      std::memset(raw, 0xDD, sizeof(T));
      std::free(raw);
    }
    p = nullptr;
    raw = nullptr;
  }
  void relocate() {
    void *r = fresh();
    if (amc::is_trivially_relocatable<T>::value) {
      std::memcpy(r, raw, sizeof(T));
    } else {
      T *np = new (r) T(std::move(*p));
      (void)np;
      p->~T();
    }
    {
      Internal g;
      std::memset(raw, 0xDD, sizeof(T));
      std::free(raw);
    }
    raw = r;
    p = static_cast<T *>(r);
  }
};

template <class Tuple>
struct SlotsOf;
template <class... Ts>
struct SlotsOf<std::tuple<Ts...>> {
  using type = std::tuple<Slot<Ts>...>;
};
static SlotsOf<Types>::type g_slots;

template <class F, size_t... I>
static void visitImpl(int c, F &&f, std::index_sequence<I...>) {
  (void)std::initializer_list<int>{(c == static_cast<int>(I) + 1 ? (f(std::get<I>(g_slots)), 0) : 0)...};
}
template <class F>
static void visit(int c, F &&f) {
  visitImpl(c, std::forward<F>(f), std::make_index_sequence<static_cast<size_t>(K)>());
}

// ---------------------------------------------------------------------------------------------------------------
struct Label {
  std::string op, it;
  int c = 0, d = 0, v = 0, h = 0, n = 0, cm = 0, k = 0;
  std::vector<int> vs;
  std::string json() const {
    std::string s = "{\"op\":\"" + op + "\",\"c\":" + std::to_string(c) + ",\"d\":" + std::to_string(d) +
                    ",\"v\":" + std::to_string(v) + ",\"h\":" + std::to_string(h) + ",\"n\":" + std::to_string(n) +
                    ",\"cm\":" + std::to_string(cm) + ",\"it\":\"" + (it == "-" ? "" : it) + "\",\"vs\":[";
    for (size_t i = 0; i < vs.size(); ++i) s += (i ? "," : "") + std::to_string(vs[i]);
    s += "],\"k\":" + std::to_string(k) + "}";
    return s;
  }
};

struct Result {
  std::string k = "none";
  long i = 0, b = 0;
  std::vector<int> s;
  std::string what;
  void ins(long pos, bool inserted) { k = "ins", i = pos, b = inserted ? 1 : 0; }
  void it(long pos) { k = "it", i = pos; }
  void val(long x) { k = "val", i = x; }
  void boolean(bool x) { k = "bool", i = x ? 1 : 0; }
  void run(std::vector<int> r) { k = "run", s = std::move(r); }
  void exc(const char *w) { k = "exc", i = 0, b = 0, s.clear(), what = w; }
  void unsupported() { k = "unsupported"; }
  std::string json() const {
    std::string r = "{\"k\":\"" + k + "\",\"i\":" + std::to_string(i) + ",\"b\":" + std::to_string(b) + ",\"s\":[";
    for (size_t j = 0; j < s.size(); ++j) r += (j ? "," : "") + std::to_string(s[j]);
    r += "],\"what\":\"" + what + "\"}";
    return r;
  }
};

static long g_cmps = 0;

template <class F>
static void guarded(const Label &lb, Result &r, F &&f) {
  R.gm = 0;
  R.cmpCalls = 0;
  R.arm(lb.k);
  R.window = true;
  try {
    f();
    R.window = false;
    R.disarm();
  } catch (const Injected &) {
    R.window = false, R.disarm(), r.exc("injected");
  } catch (const std::bad_alloc &) {
    R.window = false, R.disarm(), r.exc("bad_alloc");
  } catch (const std::out_of_range &) {
    R.window = false, R.disarm(), r.exc("out_of_range");
  } catch (const std::overflow_error &) {
    R.window = false, R.disarm(), r.exc("overflow_error");
  } catch (const std::exception &) {
    R.window = false, R.disarm(), r.exc("exception");
  } catch (...) {
    R.window = false, R.disarm(), r.exc("unknown");
  }
  g_cmps = R.cmpCalls;
}

struct RangeSrc {
  std::vector<E> arr;
  std::list<E> lst;
  typename InputIt<E>::Shared sh{nullptr, 0, 0};
  explicit RangeSrc(const Label &lb) {
    Internal g;
    arr.reserve(lb.vs.size());
    for (int x : lb.vs) arr.emplace_back(x);
    if (lb.it == "bidir")
      for (int x : lb.vs) lst.emplace_back(x);
    sh.base = arr.data();
    sh.n = arr.size();
  }
  ~RangeSrc() {
    Internal g;
    arr.clear();
    lst.clear();
  }
  template <class F>
  bool with(const std::string &it, F &&f) {
    const E *b = arr.data(), *e = arr.data() + arr.size();
    if (it == "ptr")
      f(b, e);
    else if (it == "input")
      f(InputIt<E>(&sh, false), InputIt<E>(&sh, true));
    else if (it == "fwd")
      f(WrapIt<E, std::forward_iterator_tag>(b), WrapIt<E, std::forward_iterator_tag>(e));
    else if (it == "ra")
      f(WrapIt<E, std::random_access_iterator_tag>(b), WrapIt<E, std::random_access_iterator_tag>(e));
    else if (it == "bidir")
      f(lst.begin(), lst.end());
    else if (it == "move")
      f(std::make_move_iterator(arr.data()), std::make_move_iterator(arr.data() + arr.size()));
    else
      return false;
    return true;
  }
};

template <class F>
static bool withIlist(const std::vector<int> &vs, F &&f) {
  switch (vs.size()) {
    case 0: {
      std::initializer_list<E> il{};
      f(il);
      return true;
    }
    case 1: {
      std::initializer_list<E> il{E(vs[0])};
      f(il);
      return true;
    }
    case 2: {
      std::initializer_list<E> il{E(vs[0]), E(vs[1])};
      f(il);
      return true;
    }
    case 3: {
      std::initializer_list<E> il{E(vs[0]), E(vs[1]), E(vs[2])};
      f(il);
      return true;
    }
    case 4: {
      std::initializer_list<E> il{E(vs[0]), E(vs[1]), E(vs[2]), E(vs[3])};
      f(il);
      return true;
    }
    default:
      return false;
  }
}

template <class T, class It>
static long posOf(const T &s, It it) {
  return it == s.end() ? -1 : static_cast<long>(valOf(*it));
}

// ---------------------------------------------------------------------------------------------------------------
template <class T>
static void runCtor(Slot<T> &s, const Label &lb, Result &r) {
  using C = typename T::key_compare;
  const std::string &op = lb.op;
  if (op == "ctorDefault") {
    guarded(lb, r, [&] { s.construct([&](void *w) { return new (w) T(C(lb.cm)); }); });
  } else if (op == "ctorRange") {
    RangeSrc src(lb);
    bool ok = true;
    guarded(lb, r, [&] {
      ok = src.with(lb.it, [&](auto f, auto l) { s.construct([&](void *w) { return new (w) T(f, l, C(lb.cm)); }); });
    });
    if (!ok) r.unsupported();
  } else if (op == "ctorIlist") {
    bool ok = true;
    guarded(lb, r, [&] {
      ok = withIlist(lb.vs,
                     [&](std::initializer_list<E> il) { s.construct([&](void *w) { return new (w) T(il, C(lb.cm)); }); });
    });
    if (!ok) r.unsupported();
  } else if (op == "ctorFromVec") {
    if constexpr (STraits<T>::flat) {
      typename T::vector_type vec;
      {
        for (int x : lb.vs) vec.emplace_back(x);
      }
      guarded(lb, r, [&] { s.construct([&](void *w) { return new (w) T(std::move(vec), C(lb.cm)); }); });
    } else {
      r.unsupported();
    }
  } else {
    r.unsupported();
  }
}

template <class P>
static const E *arrowOf(P *p) {
  return p;
}
template <class It>
static const E *arrowOf(const It &it) {
  return it.operator->();
}

template <class T>
static void run1(Slot<T> &s, const Label &lb, Result &r) {
  T &v = *s.p;
  const T &cv = v;
  using C = typename T::key_compare;
  const std::string &op = lb.op;
  std::optional<E> tmp;
  auto hintIt = [&] { return std::next(cv.begin(), lb.h); };
  if (op == "destroy") {
    guarded(lb, r, [&] { s.destroy(); });
  } else if (op == "relocate") {
    guarded(lb, r, [&] { s.relocate(); });
  } else if (op == "insert") {
    tmp.emplace(lb.v);
    guarded(lb, r, [&] {
      auto pr = v.insert(static_cast<const E &>(*tmp));
      r.ins(posOf(cv, pr.first), pr.second);
    });
  } else if (op == "insertRv") {
    tmp.emplace(lb.v);
    guarded(lb, r, [&] {
      auto pr = v.insert(std::move(*tmp));
      r.ins(posOf(cv, pr.first), pr.second);
    });
  } else if (op == "emplace") {
    guarded(lb, r, [&] {
      auto pr = v.emplace(lb.v);
      r.ins(posOf(cv, pr.first), pr.second);
    });
  } else if (op == "insertHint") {
    tmp.emplace(lb.v);
    auto h = hintIt();
    guarded(lb, r, [&] { r.it(posOf(cv, v.insert(h, static_cast<const E &>(*tmp)))); });
  } else if (op == "insertHintRv") {
    tmp.emplace(lb.v);
    auto h = hintIt();
    guarded(lb, r, [&] { r.it(posOf(cv, v.insert(h, std::move(*tmp)))); });
  } else if (op == "emplaceHint") {
    auto h = hintIt();
    guarded(lb, r, [&] { r.it(posOf(cv, v.emplace_hint(h, lb.v))); });
  } else if (op == "insertRange") {
    RangeSrc src(lb);
    bool ok = true;
    guarded(lb, r, [&] { ok = src.with(lb.it, [&](auto f, auto l) { v.insert(f, l); }); });
    if (!ok) r.unsupported();
  } else if (op == "insertIlist") {
    bool ok = true;
    guarded(lb, r, [&] { ok = withIlist(lb.vs, [&](std::initializer_list<E> il) { v.insert(il); }); });
    if (!ok) r.unsupported();
  } else if (op == "assignIlist") {
    bool ok = true;
    guarded(lb, r, [&] { ok = withIlist(lb.vs, [&](std::initializer_list<E> il) { v = il; }); });
    if (!ok) r.unsupported();
  } else if (op == "assignVec") {
    if constexpr (STraits<T>::flat) {
      typename T::vector_type vec;
      for (int x : lb.vs) vec.emplace_back(x);
      guarded(lb, r, [&] { v = std::move(vec); });
    } else {
      r.unsupported();
    }
  } else if (op == "stealVector") {
    if constexpr (STraits<T>::flat) {
      guarded(lb, r, [&] {
        typename T::vector_type vec = v.steal_vector();
        std::vector<int> out;
        {
          Internal g;
          for (const E &e : vec) out.push_back(valOf(e));
        }
        r.run(out);
      });
    } else {
      r.unsupported();
    }
  } else if (op == "eraseKey") {
    tmp.emplace(lb.v);
    guarded(lb, r, [&] { r.val(static_cast<long>(v.erase(static_cast<const E &>(*tmp)))); });
  } else if (op == "erasePos") {
    auto h = hintIt();
    guarded(lb, r, [&] { r.it(posOf(cv, v.erase(h))); });
  } else if (op == "eraseRange") {
    auto f = std::next(cv.begin(), lb.h), l = std::next(cv.begin(), lb.n);
    guarded(lb, r, [&] { r.it(posOf(cv, v.erase(f, l))); });
  } else if (op == "eraseLoop") {
    guarded(lb, r, [&] {
      long visited = 0, steps = 0, cap = 4 * static_cast<long>(cv.size()) + 8;
      for (auto it = cv.begin(); it != cv.end();) {
        if (++steps > cap) {
          visited = -1;
          break;
        }
        if (valOf(*it) % 2 == lb.n) {
          it = v.erase(it);
        } else {
          ++visited;
          ++it;
        }
      }
      r.val(visited);
    });
  } else if (op == "clear") {
    guarded(lb, r, [&] { v.clear(); });
  } else if (op == "find") {
    tmp.emplace(lb.v);
    guarded(lb, r, [&] { r.it(posOf(cv, cv.find(*tmp))); });
  } else if (op == "contains") {
    tmp.emplace(lb.v);
#if __cplusplus >= 202002L
    guarded(lb, r, [&] { r.boolean(cv.contains(*tmp)); });
#else
    guarded(lb, r, [&] { r.boolean(cv.count(*tmp) != 0); });
#endif
  } else if (op == "count") {
    tmp.emplace(lb.v);
    guarded(lb, r, [&] { r.val(static_cast<long>(cv.count(*tmp))); });
  } else if (op == "findK" || op == "containsK" || op == "countK" || op == "lowerBoundK" || op == "upperBoundK") {
    if constexpr (CmpId<C>::transparent) {
      Key key{lb.v};
      if (op == "findK") {
        guarded(lb, r, [&] { r.it(posOf(cv, cv.find(key))); });
      } else if (op == "containsK") {
        guarded(lb, r, [&] { r.boolean(cv.contains(key)); });
      } else if (op == "countK") {
        guarded(lb, r, [&] { r.val(static_cast<long>(cv.count(key))); });
      } else if constexpr (!STraits<T>::small) {
        if (op == "lowerBoundK") {
          guarded(lb, r, [&] { r.it(posOf(cv, cv.lower_bound(key))); });
        } else {
          guarded(lb, r, [&] { r.it(posOf(cv, cv.upper_bound(key))); });
        }
      } else {
        r.unsupported();
      }
    } else {
      r.unsupported();
    }
  } else if (op == "lowerBoundC" || op == "upperBoundC" || op == "countC" || op == "containsC") {
    if constexpr (CmpId<C>::transparent) {
      KeyC key{lb.v, lb.n == 0 ? 2 : static_cast<int>(lb.n)};
      if (op == "countC") {
        guarded(lb, r, [&] { r.val(static_cast<long>(cv.count(key))); });
      } else if (op == "containsC") {
        guarded(lb, r, [&] { r.boolean(cv.contains(key)); });
      } else if constexpr (!STraits<T>::small) {
        if (op == "lowerBoundC") {
          guarded(lb, r, [&] { r.it(posOf(cv, cv.lower_bound(key))); });
        } else {
          guarded(lb, r, [&] { r.it(posOf(cv, cv.upper_bound(key))); });
        }
      } else {
        r.unsupported();
      }
    } else {
      r.unsupported();
    }
  } else if (op == "lowerBound" || op == "upperBound" || op == "equalRange") {
    if constexpr (!STraits<T>::small) {
      tmp.emplace(lb.v);
      if (op == "lowerBound") {
        guarded(lb, r, [&] { r.it(posOf(cv, cv.lower_bound(*tmp))); });
      } else if (op == "upperBound") {
        guarded(lb, r, [&] { r.it(posOf(cv, cv.upper_bound(*tmp))); });
      } else {
        guarded(lb, r, [&] {
          auto pr = cv.equal_range(*tmp);
          std::vector<int> out;
          {
            Internal g;
            for (auto it = pr.first; it != pr.second; ++it) out.push_back(valOf(*it));
          }
          r.run(out);
        });
      }
    } else {
      r.unsupported();
    }
  } else if (op == "iterate") {
    guarded(lb, r, [&] {
      long fw = 0, bw = 0, m = 1, nf = 0;
      bool arrowOk = true;  // it-> designates the element *it designates, forwards and backwards
      for (auto it = cv.begin(); it != cv.end(); ++it) fw = fw * 31 + valOf(*it) + 1, ++nf, arrowOk = arrowOk && arrowOf(it) == &*it;
      for (auto it = cv.rbegin(); it != cv.rend(); ++it) bw += (valOf(*it) + 1) * m, m *= 31, arrowOk = arrowOk && arrowOf(it) == &*it;
      r.val(!arrowOk ? -2 : fw == bw ? nf : -1);
    });
  } else if (op == "extractKey") {
    tmp.emplace(lb.v);
    guarded(lb, r, [&] {
      s.node.emplace(v.extract(static_cast<const E &>(*tmp)));
      r.boolean(!s.node->empty());
      if (s.node->empty()) s.node.reset();
    });
  } else if (op == "extractPos") {
    auto h = hintIt();
    guarded(lb, r, [&] {
      s.node.emplace(v.extract(h));
      r.boolean(!s.node->empty());
      if (s.node->empty()) s.node.reset();
    });
  } else if (op == "dropNode") {
    guarded(lb, r, [&] { s.node.reset(); });
  } else if (op == "nodeSetValue") {
    if (s.node && !s.node->empty()) {
      tmp.emplace(lb.v);
      guarded(lb, r, [&] { s.node->value() = std::move(*tmp); });
    } else {
      r.unsupported();
    }
  } else if (op == "nodeValue") {
    if (s.node && !s.node->empty()) {
      const auto &cn = *s.node;
      guarded(lb, r, [&] { r.val(valOf(cn.value())); });
    } else {
      r.unsupported();
    }
  } else if (op == "eraseIf") {
#if __cplusplus >= 202002L
    guarded(lb, r, [&] { r.val(static_cast<long>(erase_if(v, [&](const E &e) { return valOf(e) % 2 == lb.n; }))); });
#else
    r.unsupported();
#endif
  } else if (op == "front" || op == "back" || op == "index" || op == "at" || op == "reserve" || op == "shrinkToFit") {
    if constexpr (STraits<T>::flat) {
      using SZ = typename T::size_type;
      if (op == "front")
        guarded(lb, r, [&] { r.val(valOf(cv.front())); });
      else if (op == "back")
        guarded(lb, r, [&] { r.val(valOf(cv.back())); });
      else if (op == "index")
        guarded(lb, r, [&] { r.val(valOf(cv[static_cast<SZ>(lb.h)]) + (cv.data() + lb.h == &cv[static_cast<SZ>(lb.h)] ? 0 : 1000)); });
      else if (op == "at")
        guarded(lb, r, [&] { r.val(valOf(cv.at(static_cast<SZ>(lb.h)))); });
      else if (op == "reserve")
        guarded(lb, r, [&] {
          v.reserve(static_cast<SZ>(lb.n));
          if (cv.capacity() < static_cast<SZ>(lb.n)) r.val(-1);
        });
      else
        guarded(lb, r, [&] { v.shrink_to_fit(); });
    } else {
      r.unsupported();
    }
  } else {
    r.unsupported();
  }
  tmp.reset();
}

template <class T, class U>
struct CanMergeOther : std::false_type {};
template <class T, class C1, class C2, class Al, class V>
struct CanMergeOther<amc::FlatSet<T, C1, Al, V>, amc::FlatSet<T, C2, Al, V>> : std::integral_constant<bool, !std::is_same<C1, C2>::value> {};
// (both backing sets of the same kind: std::set with std::set, FlatSet with FlatSet)
template <class T, uintmax_t N1, uintmax_t N2, class C1, class C2, class Al, class S1, class S2>
struct CanMergeOther<amc::SmallSet<T, N1, C1, Al, S1>, amc::SmallSet<T, N2, C2, Al, S2>>
    : std::integral_constant<bool, !std::is_same<amc::SmallSet<T, N1, C1, Al, S1>, amc::SmallSet<T, N2, C2, Al, S2>>::value &&
                                       STraits<S1>::flat == STraits<S2>::flat> {};
template <class T, class C1, class C2, class Al>
struct CanMergeOther<std::set<T, C1, Al>, std::set<T, C2, Al>> : std::integral_constant<bool, !std::is_same<C1, C2>::value> {};

template <class T, class U>
static void run2(Slot<T> &a, Slot<U> &b, const Label &lb, Result &r) {
  const std::string &op = lb.op;
  constexpr bool same = std::is_same<T, U>::value;
  if (op == "mergeOther") {
    if constexpr (CanMergeOther<T, U>::value) {
      guarded(lb, r, [&] { a.p->merge(*b.p); });
    } else {
      r.unsupported();
    }
    return;
  }
  if constexpr (same) {
    const T &ca = *a.p;
    const T &cb = *b.p;
    if (op == "ctorCopy") {
      guarded(lb, r, [&] { a.construct([&](void *w) { return new (w) T(cb); }); });
    } else if (op == "ctorMove") {
      guarded(lb, r, [&] { a.construct([&](void *w) { return new (w) T(std::move(*b.p)); }); });
    } else if (op == "mergeSame") {
      guarded(lb, r, [&] { a.p->merge(*b.p); });
    } else if (op == "swap") {
      guarded(lb, r, [&] { a.p->swap(*b.p); });
    } else if (op == "assignCopy") {
      guarded(lb, r, [&] { *a.p = cb; });
    } else if (op == "assignMove") {
      guarded(lb, r, [&] { *a.p = std::move(*b.p); });
    } else if (op == "eq") {
      guarded(lb, r, [&] { r.boolean(ca == cb); });
    } else if (op == "ne") {
      guarded(lb, r, [&] { r.boolean(ca != cb); });
    } else if (op == "lt") {
      guarded(lb, r, [&] { r.boolean(ca < cb); });
    } else if (op == "le") {
      guarded(lb, r, [&] { r.boolean(ca <= cb); });
    } else if (op == "gt") {
      guarded(lb, r, [&] { r.boolean(ca > cb); });
    } else if (op == "ge") {
      guarded(lb, r, [&] { r.boolean(ca >= cb); });
    } else if (op == "insertNode" || op == "insertNodeHint") {
      // the node handle held by slot b is inserted into a
      if (!b.node) {
        r.unsupported();
      } else if (op == "insertNode") {
        guarded(lb, r, [&] {
          auto irt = a.p->insert(std::move(*b.node));
          r.ins(posOf(ca, irt.position), irt.inserted);
          b.node.emplace(std::move(irt.node));
          if (b.node->empty()) b.node.reset();
        });
      } else {
        auto h = std::next(ca.begin(), lb.h);
        guarded(lb, r, [&] {
          size_t before = ca.size();
          auto it = a.p->insert(h, std::move(*b.node));
          r.ins(posOf(ca, it), ca.size() != before);
          if (b.node->empty()) b.node.reset();
        });
      }
    } else {
      r.unsupported();
    }
  } else {
    r.unsupported();
  }
}

// ---------------------------------------------------------------------------------------------------------------
template <class T>
static void observe(Slot<T> &s, std::string &out) {
  std::string nd = "{\"has\":false,\"v\":0,\"id\":0}";
  if (s.node)
    nd = std::string("{\"has\":true,\"v\":") + std::to_string(valOf(s.node->value())) + ",\"id\":" +
         std::to_string(s.node->value().id_()) + "}";
  if (!s.ex()) {
    out += "{\"ex\":false,\"node\":" + nd + "}";
    return;
  }
  const T &v = *s.p;
  std::string vals, ids, mv;
  size_t n = 0;
  long cap = static_cast<long>(v.size()) * 4 + 16;
  for (auto it = v.begin(); it != v.end(); ++it, ++n) {
    if (static_cast<long>(n) > cap) break;  // a broken iteration must not hang the recorder
    const E &e = *it;
    e.check_();
    const char *sep = n ? "," : "";
    vals += sep + std::to_string(valOf(e));
    ids += sep + std::to_string(e.id_());
    mv += sep + std::to_string(e.mv_());
  }
  out += "{\"ex\":true,\"size\":" + std::to_string(v.size()) + ",\"empty\":" + (v.empty() ? "true" : "false") +
         ",\"cm\":" + std::to_string(v.key_comp().cm()) + ",\"elems\":[" + vals + "],\"ids\":[" + ids + "],\"mv\":[" + mv +
         "],\"node\":" + nd + "}";
}

template <size_t... I>
static void observeAll(std::string &out, std::index_sequence<I...>) {
  bool first = true;
  (void)std::initializer_list<int>{((out += first ? "" : ","), first = false, observe(std::get<I>(g_slots), out), 0)...};
}

extern long g_h0, g_h1;
template <size_t... I>
static void healAll(std::index_sequence<I...>) {
  auto heal = [](auto &s) {
    if (s.ex())
      for (const E &e : static_cast<const typename std::remove_reference<decltype(s)>::type::type &>(*s.p)) e.heal_();
    if (s.node && !s.node->empty()) s.node->value().heal_();
  };
  (heal(std::get<I>(g_slots)), ...);
}

static void emit(const Label &lb, const Result &r) {
  Internal g;
  std::string line = "{\"e\":\"op\",\"lbl\":" + lb.json() + ",\"ret\":" + r.json() + ",\"obs\":[";
  observeAll(line, std::make_index_sequence<static_cast<size_t>(K)>());
  line += "],\"prims\":[" + R.prims + "],\"allocs\":[" + R.allocs + "],\"gm\":" + std::to_string(R.gm) +
          ",\"te\":" + std::to_string(R.throwEvents) + ",\"tm\":" + (R.thrownByMove ? "true" : "false") + ",\"cmps\":" + std::to_string(g_cmps) + ",\"h0\":" + std::to_string(g_h0) +
          ",\"h1\":" + std::to_string(g_h1) + "}";
  R.prims.clear();
  R.allocs.clear();
  OUT.line(line);
}

static bool exists(int c) {
  bool e = false;
  visit(c, [&](auto &s) { e = s.ex(); });
  return e;
}
static bool hasNode(int c) {
  bool e = false;
  visit(c, [&](auto &s) { e = s.node.has_value(); });
  return e;
}

static bool g_lastInjected = false;
long g_h0 = 0, g_h1 = 0;

static bool isConstOp(const std::string &op) {
  return op == "find" || op == "contains" || op == "count" || op == "lowerBound" || op == "upperBound" || op == "equalRange" ||
         op == "findK" || op == "containsK" || op == "countK" || op == "lowerBoundK" || op == "upperBoundK" || op == "iterate" ||
         op == "front" || op == "back" || op == "index" || op == "at" ||
         op == "lowerBoundC" || op == "upperBoundC" || op == "countC" || op == "containsC" ||
         op == "eq" || op == "ne" || op == "lt" || op == "le" || op == "gt" || op == "ge" || op == "ctorCopy" || op == "assignCopy";
}
// hash of the representation of the set(s) a const operation reads (the object bytes: a mutable cache shows here)
static long hashConstOperands(const Label &lb) {
  long h = 0;
  bool rd = lb.op == "ctorCopy" || lb.op == "assignCopy";
  int who[2] = {rd ? lb.d : lb.c, (lb.d != 0 && !rd) ? lb.d : 0};
  for (int i = 0; i < 2; ++i) {
    if (who[i] == 0) continue;
    visit(who[i], [&](auto &s) {
      if (!s.ex()) return;
      using T = typename std::remove_reference<decltype(s)>::type::type;
      h = (h * 31 + repHash(s.p, sizeof(T))) % 1000000007L;
    });
  }
  return h;
}

static void execute(const Label &lb) {
  {
    Internal g;
    std::string j = lb.json();
    size_t n = j.size() < sizeof(g_inflight) - 1 ? j.size() : sizeof(g_inflight) - 1;
    memcpy(g_inflight, j.data(), n);
    g_inflight[n] = 0;
    g_inflightValid = 1;
  }
  Result r;
  g_cmps = 0;
  bool isCtor = lb.op.compare(0, 4, "ctor") == 0;
  bool cop = isConstOp(lb.op) && lb.c >= 1 && lb.c <= K && lb.d >= 0 && lb.d <= K && !(lb.op == "assignCopy" && lb.c == lb.d);
  g_h0 = cop ? hashConstOperands(lb) : 0;
  Label lbx = lb;  // the pool has one node handle: insert(node) takes it from whichever slot holds it
  const bool nodeOp = lb.op == "dropNode" || lb.op == "nodeSetValue" || lb.op == "nodeValue";
  if ((lb.op == "insertNode" || lb.op == "insertNodeHint" || nodeOp) && lb.d == 0)
    for (int c = 1; c <= K; ++c)
      if (hasNode(c)) lbx.d = c;
  if (lb.c < 1 || lb.c > K || (lb.d != 0 && (lb.d < 1 || lb.d > K))) {
    r.unsupported();
  } else if (nodeOp) {
    visit(lbx.d ? lbx.d : lb.c, [&](auto &s) { run1(s, lb, r); });
  } else if (isCtor) {
    if (exists(lb.c) || (lb.d != 0 && !exists(lb.d))) {
      r.unsupported();
    } else if (lb.d == 0) {
      visit(lb.c, [&](auto &s) { runCtor(s, lb, r); });
    } else {
      visit(lb.c, [&](auto &a) { visit(lb.d, [&](auto &b) { run2(a, b, lb, r); }); });
    }
  } else if (!exists(lb.c) || (lb.d != 0 && !exists(lb.d))) {
    r.unsupported();
  } else if (lbx.d == 0) {
    visit(lb.c, [&](auto &s) { run1(s, lb, r); });
  } else {
    visit(lb.c, [&](auto &a) { visit(lbx.d, [&](auto &b) { run2(a, b, lb, r); }); });
  }
  g_inflightValid = 0;
  g_lastInjected = r.k == "exc" && (r.what == "injected" || r.what == "bad_alloc");
  g_h1 = cop ? hashConstOperands(lb) : 0;
  emit(lb, r);
  if (R.thrownByMove) {
    // A move operation that throws inevitably leaves moved-from elements behind, and a set cannot keep its order
    // with them (reported on this line, where the specification waives both): the sets are emptied by recorded
    // clear() calls, so that what follows only has to show that nothing was leaked or destroyed twice.
    R.thrownByMove = false;
    healAll(std::make_index_sequence<static_cast<size_t>(K)>());
    for (int c = 1; c <= K; ++c) {
      if (exists(c)) {
        Label cl;
        cl.op = "clear";
        cl.c = c;
        cl.it = "-";
        execute(cl);
      }
    }
  }
}

static void finishExecution() {
  for (int c = 1; c <= K; ++c) {
    if (hasNode(c)) {
      Label lb;
      lb.op = "dropNode";
      lb.c = 1;
      lb.d = c;
      lb.it = "-";
      execute(lb);
    }
  }
  for (int c = 1; c <= K; ++c) {
    if (exists(c)) {
      Label lb;
      lb.op = "destroy";
      lb.c = c;
      lb.it = "-";
      execute(lb);
    }
  }
  OUT.line("{\"e\":\"reset\"}");
  R.resetTokens();
}

template <size_t... I>
static std::string configJson(std::index_sequence<I...>) {
  std::string s = std::string("{\"e\":\"config\",\"name\":\"") + CFG_NAME + "\",\"elem\":\"" + elemName() +
                  "\",\"esize\":" + std::to_string(sizeof(E)) + ",\"alloc\":\"" + kAllocName +
                  "\",\"std\":" + std::to_string(__cplusplus) + ",\"countsGlobal\":" + kCountsGlobal + ",\"slots\":[";
  const void *ids[] = {static_cast<const void *>(&typeid(typename std::tuple_element<I, Types>::type))...};
  int tid[sizeof...(I)];
  for (size_t i = 0; i < sizeof...(I); ++i) {
    tid[i] = static_cast<int>(i) + 1;
    for (size_t j = 0; j < i; ++j)
      if (ids[j] == ids[i]) {
        tid[i] = tid[j];
        break;
      }
  }
  bool first = true;
  size_t idx = 0;
  (void)std::initializer_list<int>{
      ((s += std::string(first ? "" : ",") + "{\"flav\":\"" + STraits<typename std::tuple_element<I, Types>::type>::flav() +
             "\",\"n\":" + std::to_string(STraits<typename std::tuple_element<I, Types>::type>::n()) + ",\"tid\":" +
             std::to_string(tid[idx]) + ",\"cmpt\":" +
             std::to_string(CmpId<typename std::tuple_element<I, Types>::type::key_compare>::id) + ",\"transparent\":" +
             (CmpId<typename std::tuple_element<I, Types>::type::key_compare>::transparent ? "true" : "false") +
             ",\"sizeof\":" + std::to_string(sizeof(typename std::tuple_element<I, Types>::type)) + ",\"reloc\":" +
             (amc::is_trivially_relocatable<typename std::tuple_element<I, Types>::type>::value ? "true" : "false") + "}"),
       first = false, ++idx, 0)...};
  s += "]}";
  return s;
}

static bool parseLine(const std::string &line, Label &lb) {
  // op c d v h n cm it k nvs vs...
  char op[64], it[32];
  int nvs = 0, off = 0;
  if (sscanf(line.c_str(), "%63s %d %d %d %d %d %d %31s %d %d%n", op, &lb.c, &lb.d, &lb.v, &lb.h, &lb.n, &lb.cm, it, &lb.k,
             &nvs, &off) < 10)
    return false;
  lb.op = op;
  lb.it = it;
  lb.vs.clear();
  const char *p = line.c_str() + off;
  for (int i = 0; i < nvs; ++i) {
    int x, o2;
    if (sscanf(p, "%d%n", &x, &o2) < 1) return false;
    lb.vs.push_back(x);
    p += o2;
  }
  return true;
}

int main(int argc, char **argv) {
  if (argc < 3) {
    fprintf(stderr, "usage: %s <script> <trace.ndjson> [batch]\n", argv[0]);
    return 2;
  }
  int batch = argc > 3 ? atoi(argv[3]) : 200;
  std::vector<std::vector<std::string>> execs;
  {
    FILE *f = fopen(argv[1], "r");
    if (!f) {
      perror("script");
      return 2;
    }
    char *ln = nullptr;
    size_t cap = 0;
    ssize_t n;
    execs.emplace_back();
    while ((n = getline(&ln, &cap, f)) > 0) {
      while (n > 0 && (ln[n - 1] == '\n' || ln[n - 1] == '\r')) ln[--n] = 0;
      if (n == 0 || ln[0] == '#') continue;
      if (strcmp(ln, "reset") == 0) {
        execs.emplace_back();
      } else {
        execs.back().push_back(ln);
      }
    }
    free(ln);
    fclose(f);
    if (execs.back().empty()) execs.pop_back();
  }
  OUT.open(argv[2]);
  OUT.line(configJson(std::make_index_sequence<static_cast<size_t>(K)>()));
  OUT.flush();
  volatile long *progress =
      static_cast<volatile long *>(mmap(nullptr, sizeof(long), PROT_READ | PROT_WRITE, MAP_SHARED | MAP_ANONYMOUS, -1, 0));
  size_t next = 0;
  int crashes = 0;
  while (next < execs.size()) {
    *progress = static_cast<long>(next);
    pid_t pid = fork();
    if (pid < 0) {
      perror("fork");
      return 2;
    }
    if (pid == 0) {
      installHandlers();
      size_t end = std::min(execs.size(), next + static_cast<size_t>(batch));
      for (size_t i = next; i < end; ++i) {
        *progress = static_cast<long>(i);
        alarm(30);
        bool probe = false;
        for (const std::string &ln : execs[i]) probe = probe || ln[0] == '!';
        for (int k = probe ? 1 : 0; k <= 64; ++k) {
          bool injected = false;
          for (const std::string &ln : execs[i]) {
            Label lb;
            bool bang = ln[0] == '!';
            bool opt = ln[0] == '?';
            if (!parseLine(bang || opt ? ln.substr(1) : ln, lb)) {
              fprintf(stderr, "bad script line: %s\n", ln.c_str());
              _exit(2);
            }
            if (bang) lb.k = k;
            if (opt && !(lb.c >= 1 && lb.c <= K && exists(lb.c))) continue;
            g_lastInjected = false;
            execute(lb);
            if (bang) injected = g_lastInjected;
          }
          finishExecution();
          if (!probe || !injected) break;
        }
      }
      alarm(0);
      OUT.flush();
      _exit(0);
    }
    int status = 0;
    waitpid(pid, &status, 0);
    size_t end = std::min(execs.size(), next + static_cast<size_t>(batch));
    if (WIFEXITED(status) && WEXITSTATUS(status) == 0) {
      next = end;
    } else if (WIFEXITED(status) && WEXITSTATUS(status) == 2) {
      return 2;
    } else {
      ++crashes;
      if (!(WIFEXITED(status) && WEXITSTATUS(status) == 40)) {
        const char *t = "{\"e\":\"op\",\"lbl\":{\"op\":\"unknown\",\"c\":0,\"d\":0,\"v\":0,\"h\":0,\"n\":0,\"cm\":0,\"it\":\"\","
                        "\"vs\":[],\"k\":0},\"ret\":{\"k\":\"crash\",\"i\":0,\"b\":0,\"s\":[],\"what\":\"killed\"},\"obs\":[],"
                        "\"prims\":[],\"allocs\":[],\"gm\":0,\"te\":0,\"cmps\":0}\n{\"e\":\"abort\"}\n";
        lseek(OUT.fd, 0, SEEK_END);
        ssize_t w = ::write(OUT.fd, t, strlen(t));
        (void)w;
      }
      next = static_cast<size_t>(*progress) + 1;
    }
    lseek(OUT.fd, 0, SEEK_END);
  }
  fprintf(stderr, "executions=%zu crashes=%d\n", execs.size(), crashes);
  return 0;
}
