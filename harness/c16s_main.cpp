// C16 for the sets: a C++11-clean interpreter of set labels producing an op-level transcript (return value, iteration,
// size, comparator state, comparator calls) in the ndjson format of set_main.cpp, built under every cell of the matrix
// {c++11,14,17,20} x {AMC_NONSTD_FEATURES on/off} x {NDEBUG, assertions} x {-O0,-O2}.  Transcripts must be identical
// across cells, and each one must be accepted by TLC (TraceSets.tla).
//   -DC16S_TYPE=<1..3>   1 amc::FlatSet<El,Cmp>   2 amc::SmallSet<El,2,Cmp> (C++17 and later only)
//                        3 amc::FlatSet<El,Cmp,amc::allocator<El>,amc::SmallVector<El,2>>
#include <amc/flatset.hpp>
#include <amc/smallvector.hpp>
#include <amc/vector.hpp>
#if C16S_TYPE == 2
#include <amc/smallset.hpp>
#endif

#include <cstdio>
#include <cstdlib>
#include <cstring>
#include <initializer_list>
#include <iterator>
#include <new>
#include <stdexcept>
#include <string>
#include <vector>
#if __cplusplus >= 202002L
#include <compare>
#endif

struct El {  // neither trivially copyable nor declared relocatable
  int v;
  El() : v(0) {}
  El(int x) : v(x) {}
  El(const El &o) : v(o.v) {}
  El(El &&o) noexcept : v(o.v) { o.v = -1; }
  El &operator=(const El &o) {
    v = o.v;
    return *this;
  }
  El &operator=(El &&o) noexcept {
    v = o.v;
    if (this != &o) o.v = -1;
    return *this;
  }
  ~El() { v = -2; }
};
inline bool operator==(const El &a, const El &b) { return a.v == b.v; }
inline bool operator!=(const El &a, const El &b) { return a.v != b.v; }
inline bool operator<(const El &a, const El &b) { return a.v < b.v; }
#if __cplusplus >= 202002L
inline auto operator<=>(const El &a, const El &b) { return a.v <=> b.v; }
#endif
typedef El E;

static long g_cmps = 0;
// stateful comparator: desc / mod are the STATE of the object (same encoding as set_main.cpp)
struct Cmp {
  bool desc;
  int mod;
  Cmp() : desc(false), mod(1) {}
  explicit Cmp(int cm) : desc(cm == 1 || cm == 3), mod(cm >= 2 ? 2 : 1) {}
  bool operator()(const E &a, const E &b) const {
    ++g_cmps;
    return desc ? (b.v / mod) < (a.v / mod) : (a.v / mod) < (b.v / mod);
  }
  int cm() const { return (desc ? 1 : 0) + (mod == 2 ? 2 : 0); }
};

#ifndef C16S_TYPE
#define C16S_TYPE 1
#endif
#if C16S_TYPE == 1
typedef amc::FlatSet<E, Cmp> T;
static const char *kFlav = "flat";
static const long kN = 0;
#define C16S_FLAT 1
#elif C16S_TYPE == 2
typedef amc::SmallSet<E, 2, Cmp> T;
static const char *kFlav = "small";
static const long kN = 2;
#define C16S_FLAT 0
#else
typedef amc::FlatSet<E, Cmp, amc::allocator<E>, amc::SmallVector<E, 2> > T;
static const char *kFlav = "flat";
static const long kN = 0;
#define C16S_FLAT 1
#endif

// single pass input iterator over an array, with the semantics of std::istream_iterator: all copies share ONE position
// (advancing any copy consumes the source for all of them), each iterator object keeps designating the element it read
struct InShared {
  const E *base;
  size_t pos, n;
};
struct InIt {
  typedef std::input_iterator_tag iterator_category;
  typedef E value_type;
  typedef std::ptrdiff_t difference_type;
  typedef const E *pointer;
  typedef const E &reference;
  InShared *s;
  const E *val;
  bool end;
  InIt(InShared *sh, bool e) : s(sh), val(sh->base + (sh->pos < sh->n ? sh->pos : 0)), end(e) {}
  reference operator*() const { return *val; }
  pointer operator->() const { return val; }
  InIt &operator++() {
    ++s->pos;
    val = s->base + (s->pos < s->n ? s->pos : 0);
    return *this;
  }
  InIt operator++(int) {
    InIt t(*this);
    ++*this;
    return t;
  }
  bool atEnd() const { return end || s->pos >= s->n; }
  friend bool operator==(const InIt &a, const InIt &b) { return a.atEnd() == b.atEnd(); }
  friend bool operator!=(const InIt &a, const InIt &b) { return a.atEnd() != b.atEnd(); }
};

struct Label {
  std::string op, it;
  int c, d, v, h, n, cm, k;
  std::vector<int> vs;
};
struct Result {
  std::string k, what;
  long i, b;
  std::vector<int> s;
  Result() : k("none"), i(0), b(0) {}
  void ins(long pos, bool inserted) { k = "ins", i = pos, b = inserted ? 1 : 0; }
  void it(long pos) { k = "it", i = pos; }
  void val(long x) { k = "val", i = x; }
  void boolean(bool x) { k = "bool", i = x ? 1 : 0; }
};

static T *g_slot[3] = {0, 0, 0};
static void *g_raw[3] = {0, 0, 0};

static const size_t kGuard = 64;
static void *fresh() {
  void *r = 0;
  if (posix_memalign(&r, alignof(T) < sizeof(void *) ? sizeof(void *) : alignof(T), sizeof(T) + kGuard) != 0) exit(2);
  memset(static_cast<char *>(r) + sizeof(T), 0xA5, kGuard);
  return r;
}
static bool guardsIntact() {
  for (int c = 1; c <= 2; ++c)
    if (g_raw[c])
      for (size_t i = 0; i < kGuard; ++i)
        if (static_cast<unsigned char *>(g_raw[c])[sizeof(T) + i] != 0xA5) return false;
  return true;
}

static long posOf(const T &s, T::const_iterator it) { return it == s.end() ? -1 : static_cast<long>(it->v); }

static void exec(const Label &lb, Result &r) {
  const std::string &op = lb.op;
  int c = lb.c, d = lb.d;
  std::vector<E> src;
  for (size_t i = 0; i < lb.vs.size(); ++i) src.push_back(E(lb.vs[i]));
  const E *sb = src.empty() ? static_cast<const E *>(0) : &src[0];
  const E *se = sb + src.size();
  static const E kNone(0);
  InShared ish = {sb ? sb : &kNone, 0, src.size()};
  bool input = lb.it == "input";
  if (op.compare(0, 4, "ctor") == 0) {
    void *w = fresh();
    try {
      if (op == "ctorDefault")
        g_slot[c] = new (w) T(Cmp(lb.cm));
      else if (op == "ctorRange")
        g_slot[c] = input ? new (w) T(InIt(&ish, false), InIt(&ish, true), Cmp(lb.cm)) : new (w) T(sb, se, Cmp(lb.cm));
      else if (op == "ctorIlist") {
        if (src.size() == 0)
          g_slot[c] = new (w) T(std::initializer_list<E>(), Cmp(lb.cm));
        else if (src.size() == 1)
          g_slot[c] = new (w) T(std::initializer_list<E>{src[0]}, Cmp(lb.cm));
        else
          g_slot[c] = new (w) T(std::initializer_list<E>{src[0], src[1]}, Cmp(lb.cm));
      } else if (op == "ctorCopy")
        g_slot[c] = new (w) T(static_cast<const T &>(*g_slot[d]));
      else if (op == "ctorMove")
        g_slot[c] = new (w) T(std::move(*g_slot[d]));
#if defined(AMC_NONSTD_FEATURES) && C16S_FLAT
      else if (op == "ctorFromVec") {
        T::vector_type vec(sb, se);
        g_slot[c] = new (w) T(std::move(vec), Cmp(lb.cm));
      }
#endif
      else {
        r.k = "unsupported";
        free(w);
        return;
      }
      g_raw[c] = w;
    } catch (...) {
      free(w);
      g_slot[c] = 0;
      throw;
    }
    return;
  }
  T &v = *g_slot[c];
  const T &cv = v;
  E tmp(lb.v);
  if (op == "destroy") {
    v.~T();
    free(g_raw[c]);
    g_slot[c] = 0;
    g_raw[c] = 0;
  } else if (op == "assignCopy") {
    v = static_cast<const T &>(*g_slot[d]);
  } else if (op == "assignMove") {
    v = std::move(*g_slot[d]);
  } else if (op == "assignIlist") {
    if (src.size() == 0)
      v = std::initializer_list<E>();
    else if (src.size() == 1)
      v = {src[0]};
    else
      v = {src[0], src[1]};
  } else if (op == "insert") {
    std::pair<T::iterator, bool> pr = v.insert(static_cast<const E &>(tmp));
    r.ins(posOf(cv, pr.first), pr.second);
  } else if (op == "insertRv") {
    std::pair<T::iterator, bool> pr = v.insert(std::move(tmp));
    r.ins(posOf(cv, pr.first), pr.second);
  } else if (op == "emplace") {
    std::pair<T::iterator, bool> pr = v.emplace(lb.v);
    r.ins(posOf(cv, pr.first), pr.second);
  } else if (op == "insertHint") {
    T::const_iterator h = cv.begin();
    std::advance(h, lb.h);
    r.it(posOf(cv, v.insert(h, static_cast<const E &>(tmp))));
  } else if (op == "insertHintRv") {
    T::const_iterator h = cv.begin();
    std::advance(h, lb.h);
    r.it(posOf(cv, v.insert(h, std::move(tmp))));
  } else if (op == "emplaceHint") {
    T::const_iterator h = cv.begin();
    std::advance(h, lb.h);
    r.it(posOf(cv, v.emplace_hint(h, lb.v)));
  } else if (op == "insertRange") {
    if (input)
      v.insert(InIt(&ish, false), InIt(&ish, true));
    else
      v.insert(sb, se);
  } else if (op == "insertIlist") {
    if (src.size() == 0)
      v.insert(std::initializer_list<E>());
    else if (src.size() == 1)
      v.insert({src[0]});
    else
      v.insert({src[0], src[1]});
  } else if (op == "eraseKey") {
    r.val(static_cast<long>(v.erase(static_cast<const E &>(tmp))));
  } else if (op == "erasePos") {
    T::const_iterator h = cv.begin();
    std::advance(h, lb.h);
    r.it(posOf(cv, v.erase(h)));
  } else if (op == "eraseRange") {
    T::const_iterator f = cv.begin(), l = cv.begin();
    std::advance(f, lb.h);
    std::advance(l, lb.n);
    r.it(posOf(cv, v.erase(f, l)));
  } else if (op == "eraseLoop") {
    long visited = 0, steps = 0, cap = 4 * static_cast<long>(cv.size()) + 8;
    for (T::const_iterator it = cv.begin(); it != cv.end();) {
      if (++steps > cap) {
        visited = -1;
        break;
      }
      if (it->v % 2 == lb.n) {
        it = v.erase(it);
      } else {
        ++visited;
        ++it;
      }
    }
    r.val(visited);
  } else if (op == "clear") {
    v.clear();
  } else if (op == "find") {
    r.it(posOf(cv, cv.find(tmp)));
  } else if (op == "contains") {
    r.boolean(cv.contains(tmp));
  } else if (op == "count") {
    r.val(static_cast<long>(cv.count(tmp)));
  } else if (op == "iterate") {
    long fw = 0, bw = 0, m = 1, nf = 0;
    for (T::const_iterator it = cv.begin(); it != cv.end(); ++it) fw = fw * 31 + it->v + 1, ++nf;
    for (T::const_reverse_iterator it = cv.rbegin(); it != cv.rend(); ++it) bw += (it->v + 1) * m, m *= 31;
    r.val(fw == bw ? nf : -1);
  } else if (op == "swap") {
    v.swap(*g_slot[d]);
  } else if (op == "mergeSame") {
    v.merge(*g_slot[d]);
  } else if (op == "eq") {
    r.boolean(cv == *g_slot[d]);
  } else if (op == "ne") {
    r.boolean(cv != *g_slot[d]);
  } else if (op == "lt") {
    r.boolean(cv < *g_slot[d]);
  } else if (op == "le") {
    r.boolean(cv <= *g_slot[d]);
  } else if (op == "gt") {
    r.boolean(cv > *g_slot[d]);
  } else if (op == "ge") {
    r.boolean(cv >= *g_slot[d]);
#if C16S_FLAT
  } else if (op == "lowerBound") {
    r.it(posOf(cv, cv.lower_bound(tmp)));
  } else if (op == "upperBound") {
    r.it(posOf(cv, cv.upper_bound(tmp)));
  } else if (op == "equalRange") {
    std::pair<T::const_iterator, T::const_iterator> pr = cv.equal_range(tmp);
    r.k = "run";
    for (T::const_iterator it = pr.first; it != pr.second; ++it) r.s.push_back(it->v);
#ifdef AMC_NONSTD_FEATURES
  } else if (op == "assignVec") {
    T::vector_type vec(sb, se);
    v = std::move(vec);
  } else if (op == "stealVector") {
    T::vector_type vec = v.steal_vector();
    r.k = "run";
    for (size_t i = 0; i < static_cast<size_t>(vec.size()); ++i) r.s.push_back(vec[static_cast<T::size_type>(i)].v);
  } else if (op == "front") {
    r.val(cv.front().v);
  } else if (op == "back") {
    r.val(cv.back().v);
  } else if (op == "index") {
    r.val(cv[static_cast<T::size_type>(lb.h)].v + (cv.data() + lb.h == &cv[static_cast<T::size_type>(lb.h)] ? 0 : 1000));
  } else if (op == "at") {
    r.val(cv.at(static_cast<T::size_type>(lb.h)).v);
  } else if (op == "reserve") {
    v.reserve(static_cast<T::size_type>(lb.n));
    if (cv.capacity() < static_cast<T::size_type>(lb.n)) r.val(-1);
  } else if (op == "shrinkToFit") {
    v.shrink_to_fit();
#endif
#endif
  } else {
    r.k = "unsupported";
  }
}

static std::string num(long x) {
  char b[32];
  snprintf(b, sizeof b, "%ld", x);
  return b;
}

static void observe(int c, std::string &out) {
  static const char *nd = "{\"has\":false,\"v\":0,\"id\":0}";
  if (!g_slot[c]) {
    out += std::string("{\"ex\":false,\"node\":") + nd + "}";
    return;
  }
  const T &v = *g_slot[c];
  std::string vals, zeros;
  size_t n = 0;
  long cap = static_cast<long>(v.size()) * 4 + 16;
  for (T::const_iterator it = v.begin(); it != v.end(); ++it, ++n) {
    if (static_cast<long>(n) > cap) break;
    vals += (n ? "," : "") + num(it->v);
    zeros += n ? ",0" : "0";
  }
  out += "{\"ex\":true,\"size\":" + num(static_cast<long>(v.size())) + ",\"empty\":" + (v.empty() ? "true" : "false") + ",\"cm\":" +
         num(v.key_comp().cm()) + ",\"elems\":[" + vals + "],\"ids\":[" + zeros + "],\"mv\":[" + zeros + "],\"node\":" + nd + "}";
}

static std::string lblJson(const Label &lb) {
  std::string vs;
  for (size_t i = 0; i < lb.vs.size(); ++i) vs += (i ? "," : "") + num(lb.vs[i]);
  return "{\"op\":\"" + lb.op + "\",\"c\":" + num(lb.c) + ",\"d\":" + num(lb.d) + ",\"v\":" + num(lb.v) + ",\"h\":" + num(lb.h) +
         ",\"n\":" + num(lb.n) + ",\"cm\":" + num(lb.cm) + ",\"it\":\"" + (lb.it == "-" ? "" : lb.it) + "\",\"vs\":[" + vs + "],\"k\":0}";
}

static void emit(FILE *out, const Label &lb, const Result &r, long cmps) {
  std::string s;
  for (size_t i = 0; i < r.s.size(); ++i) s += (i ? "," : "") + num(r.s[i]);
  std::string o1, o2;
  observe(1, o1);
  observe(2, o2);
  fprintf(out,
          "{\"e\":\"op\",\"lbl\":%s,\"ret\":{\"k\":\"%s\",\"i\":%ld,\"b\":%ld,\"s\":[%s],\"what\":\"%s\"},\"obs\":[%s,%s],\"prims\":[],"
          "\"allocs\":[],\"gm\":0,\"te\":0,\"cmps\":%ld}\n",
          lblJson(lb).c_str(), r.k.c_str(), r.i, r.b, s.c_str(), r.what.c_str(), o1.c_str(), o2.c_str(), cmps);
}

int main(int argc, char **argv) {
  if (argc < 3) return 2;
  FILE *in = fopen(argv[1], "r");
  FILE *out = fopen(argv[2], "w");
  if (!in || !out) return 2;
  fprintf(out,
          "{\"e\":\"config\",\"name\":\"c16s_type%d\",\"elem\":\"TC\",\"esize\":%d,\"alloc\":\"amc\",\"std\":0,\"countsGlobal\":false,"
          "\"slots\":[{\"flav\":\"%s\",\"n\":%ld,\"tid\":1,\"cmpt\":1,\"transparent\":false,\"sizeof\":%d,\"reloc\":false},"
          "{\"flav\":\"%s\",\"n\":%ld,\"tid\":1,\"cmpt\":1,\"transparent\":false,\"sizeof\":%d,\"reloc\":false}]}\n",
          C16S_TYPE, static_cast<int>(sizeof(E)), kFlav, kN, static_cast<int>(sizeof(T)), kFlav, kN, static_cast<int>(sizeof(T)));
  char *ln = 0;
  size_t cap = 0;
  ssize_t len;
  while ((len = getline(&ln, &cap, in)) > 0) {
    while (len > 0 && (ln[len - 1] == '\n' || ln[len - 1] == '\r')) ln[--len] = 0;
    if (len == 0) continue;
    if (strcmp(ln, "reset") == 0) {
      for (int c = 1; c <= 2; ++c) {
        if (g_slot[c]) {
          Label lb;
          lb.op = "destroy", lb.it = "-", lb.c = c, lb.d = lb.v = lb.h = lb.n = lb.cm = lb.k = 0;
          Result r;
          g_cmps = 0;
          exec(lb, r);
          emit(out, lb, r, g_cmps);
        }
      }
      fputs("{\"e\":\"reset\"}\n", out);
      continue;
    }
    Label lb;
    char op[64], it[32];
    int nvs = 0, off = 0;
    // op c d v h n cm it k nvs vs...
    if (sscanf(ln, "%63s %d %d %d %d %d %d %31s %d %d%n", op, &lb.c, &lb.d, &lb.v, &lb.h, &lb.n, &lb.cm, it, &lb.k, &nvs, &off) < 10) return 2;
    lb.op = op;
    lb.it = it;
    const char *p = ln + off;
    for (int i = 0; i < nvs; ++i) {
      int x, o2;
      if (sscanf(p, "%d%n", &x, &o2) < 1) return 2;
      lb.vs.push_back(x);
      p += o2;
    }
    Result r;
    g_cmps = 0;
    try {
      exec(lb, r);
    } catch (const std::out_of_range &) {
      r = Result(), r.k = "exc", r.what = "out_of_range";
    } catch (const std::overflow_error &) {
      r = Result(), r.k = "exc", r.what = "overflow_error";
    } catch (const std::exception &) {
      r = Result(), r.k = "exc", r.what = "exception";
    }
    long cmps = g_cmps;
    if (!guardsIntact()) {
      r = Result(), r.k = "crash", r.what = "wrote outside the object";
      for (int c = 1; c <= 2; ++c)
        if (g_raw[c]) memset(static_cast<char *>(g_raw[c]) + sizeof(T), 0xA5, kGuard);
    }
    emit(out, lb, r, cmps);
  }
  fclose(out);
  return 0;
}
