SPECIFICATION TSpec
CONSTANTS
 KS <- TKS
 SFlav <- TSFlav
 SN <- TSN
 STypeId <- TSTypeId
 SCmpType <- TSCmpType
 Cat <- TCat
 ESize <- TESize
INVARIANT Report
POSTCONDITION TraceAccepted
CHECK_DEADLOCK FALSE
