--------------------------------- MODULE Vec ---------------------------------
(* Specification of the three vector flavours of amc (amc::vector, SmallVector<T,N>, FixedCapacityVector<T,N>)    *)
(* as ONE state machine over a pool of K containers.                                                              *)
(*                                                                                                                *)
(*  - The state is a function  slot -> [ex, vals, cap, inl, pri].                                                 *)
(*      ex   : the object exists (between a constructor and its destructor)                                       *)
(*      vals : the element sequence (what std::vector<T> would hold)                                              *)
(*      cap  : capacity()                                                                                         *)
(*      inl  : data() lies inside the object (inline storage in use)                                              *)
(*      pri  : ghost "pristine" flag of property C05: neither the size nor a reserve request has exceeded N       *)
(*             since construction / shrink_to_fit / being moved from, and no foreign heap buffer was adopted       *)
(*  - A transition is  Step(st, lb)  for a label lb (one public call with its arguments); it yields the new       *)
(*    state and the value returned by the call (or the exception thrown).                                         *)
(*                                                                                                                *)
(* vals / ret / ex / pri are the CONTRACT (what properties C01, C05, C08, C10, C13 promise).  cap / inl are the   *)
(* DESIGN (what this implementation does: 1.5 growth, exact reserve, buffer stealing, return to inline storage    *)
(* only by shrink_to_fit ...).  The trace specification judges an implementation against the contract and only    *)
(* reports disagreement with the design part as DESIGN-DRIFT (see TraceVec.tla).                                  *)
EXTENDS SeqOps

CONSTANTS K,          \* number of slots of the pool
          Flav,       \* slot -> "vector" | "small" | "fixed"
          NInl,       \* slot -> inline capacity N (0 for "vector")
          MaxSz,      \* slot -> numeric_limits<size_type>::max()
          TypeId,     \* slot -> identifier of the C++ type (two slots with equal TypeId have the same type)
          AllocId     \* slot -> identifier of the allocator TYPE (0 for FixedCapacityVector)

Slots == 1..K
DefVal == 0            \* value of a value-initialised element
BigCap == 300          \* argument of the "reserveBig" label
HugeOps == {"insertNHuge", "appendNHuge"}      \* count argument = maximum of size_type - n

Limit(c) == IF Flav[c] = "fixed" THEN NInl[c] ELSE MaxSz[c]
LimitExc(c) == IF Flav[c] = "fixed" THEN "out_of_range" ELSE "overflow_error"
Cap0(c) == IF Flav[c] = "vector" THEN 0 ELSE NInl[c]
Inl0(c) == Flav[c] # "vector"
SameType(c, d) == TypeId[c] = TypeId[d]

Dead     == [ex |-> FALSE, vals |-> <<>>, cap |-> 0, inl |-> FALSE, pri |-> FALSE]
Fresh(c) == [ex |-> TRUE, vals |-> <<>>, cap |-> Cap0(c), inl |-> Inl0(c), pri |-> TRUE]

InitState == [c \in Slots |-> Dead]

-----------------------------------------------------------------------------
(* Labels.  One uniform record shape so that labels can be exported / logged as JSON.                             *)
(*   op  operation name          c   slot operated on          d   second slot (0 if none)                        *)
(*   pos 0-based position        n   count / index / second position                                              *)
(*   v   value argument          src 0: the argument is an external value v;  j > 0: the argument is a           *)
(*                                   reference to the container's own element number j (1-based)  (C10)           *)
(*   it  iterator kind of a range argument ("" if none)        vs  values of a range argument                     *)
(*   k   fault index (0 = no fault injected; used by traces only)                                                 *)
Lbl(op, c, d, pos, n, v, src, it, vs) ==
  [op |-> op, c |-> c, d |-> d, pos |-> pos, n |-> n, v |-> v, src |-> src, it |-> it, vs |-> vs, k |-> 0]

\* return value / exception of a call
Ret(k, i, s) == [k |-> k, i |-> i, s |-> s]
NoRet    == Ret("none", 0, "")
IdxR(i)  == Ret("idx", i, "")
ValR(v)  == Ret("val", v, "")
BoolR(b) == Ret("bool", IF b THEN 1 ELSE 0, "")
ExcR(s)  == Ret("exc", 0, s)

-----------------------------------------------------------------------------
(* DESIGN: capacity and storage mode *)

\* vec::SafeNextCapacity
NextCap(c, old, need, exact) == IF exact THEN need ELSE Min(Max((3 * old + 1) \div 2, need), MaxSz[c])

\* grow() is called only when the needed capacity exceeds the current one
Grown(c, x, need, exact) ==
  IF need <= x.cap THEN x ELSE [x EXCEPT !.cap = NextCap(c, x.cap, need, exact), !.inl = FALSE]

\* new contents s for slot c whose record is x (the caller has checked the limit)
SetVals(c, x, s, exact) ==
  LET g == Grown(c, x, Len(s), exact)
  IN [g EXCEPT !.vals = s, !.pri = x.pri /\ Len(s) <= NInl[c]]

\* elements appended one at a time (emplace_back in a loop: single pass input ranges)
RECURSIVE AppendEach(_, _, _)
AppendEach(c, x, t) ==
  IF t = <<>> THEN x ELSE AppendEach(c, SetVals(c, x, Append(x.vals, Head(t)), FALSE), Tail(t))

\* the value designated by the value argument of a label: own element (read BEFORE the call: "as if copied first")
ArgVal(x, lb) == IF lb.src > 0 THEN x.vals[lb.src] ELSE lb.v

-----------------------------------------------------------------------------
R(st, ret) == [st |-> st, ret |-> ret]
Upd(st, c, x) == [st EXCEPT ![c] = x]

\* common path of every operation that may need more capacity: limit check, then (non exact) growth
Growing(st, c, s, ret) ==
  IF Len(s) > Limit(c) THEN R(st, ExcR(LimitExc(c)))
  ELSE R(Upd(st, c, SetVals(c, st[c], s, FALSE)), ret)

\* a single pass range is consumed element by element: elements read before the failure stay (basic guarantee);
\* here the whole range either fits or the call throws once the limit is hit
GrowingEach(st, c, base, t, ret, final(_)) ==
  IF Len(base.vals) + Len(t) > Limit(c) THEN R(st, ExcR(LimitExc(c)))
  ELSE LET a == AppendEach(c, base, t) IN R(Upd(st, c, [a EXCEPT !.vals = final(a.vals)]), ret)

Ident(s) == s

\* constructors: when the call throws, the object does not come into existence
Ctor(st, r) == IF r.ret.k = "exc" THEN R(st, r.ret) ELSE r

\* state of a moved-from container
MovedFrom(c) == Fresh(c)

Step(st, lb) ==
  LET c == lb.c
      d == lb.d
      x == st[c]
      s == x.vals
      sz == Len(s)
      a == ArgVal(x, lb)
  IN
  CASE lb.op = "ctorDefault" -> R(Upd(st, c, Fresh(c)), NoRet)
    [] lb.op = "ctorCount"    -> Ctor(st, Growing(Upd(st, c, Fresh(c)), c, Rep(lb.n, DefVal), NoRet))
    [] lb.op = "ctorCountVal" -> Ctor(st, Growing(Upd(st, c, Fresh(c)), c, Rep(lb.n, lb.v), NoRet))
    [] lb.op = "ctorCountBig" -> Ctor(st, Growing(Upd(st, c, Fresh(c)), c, Rep(BigCap, DefVal), NoRet))
    [] lb.op = "ctorRange"    ->
         IF lb.it = "input" THEN Ctor(st, GrowingEach(Upd(st, c, Fresh(c)), c, Fresh(c), lb.vs, NoRet, Ident))
         ELSE Ctor(st, Growing(Upd(st, c, Fresh(c)), c, lb.vs, NoRet))
    [] lb.op = "ctorIlist"    -> Ctor(st, Growing(Upd(st, c, Fresh(c)), c, lb.vs, NoRet))
    [] lb.op = "ctorCopy"     -> Ctor(st, Growing(Upd(st, c, Fresh(c)), c, st[d].vals, NoRet))
    [] lb.op = "ctorMove"     ->
         \* the new object takes the contents; a heap buffer is handed over as it is, inline elements are relocated
         LET y == st[d]
             nw == IF y.inl \/ Flav[c] = "fixed"
                   THEN [Fresh(c) EXCEPT !.vals = y.vals, !.pri = y.pri]
                   ELSE [ex |-> TRUE, vals |-> y.vals, cap |-> y.cap, inl |-> FALSE, pri |-> y.pri]
         IN R([st EXCEPT ![c] = nw, ![d] = [MovedFrom(d) EXCEPT !.pri = TRUE]], NoRet)
    [] lb.op = "ctorFromVector" ->
         \* SmallVector(amc::vector&&): always steals the dynamic buffer when there is one
         LET y == st[d]
         IN IF y.cap # 0
            THEN R([st EXCEPT ![c] = [ex |-> TRUE, vals |-> y.vals, cap |-> y.cap, inl |-> FALSE, pri |-> FALSE],
                              ![d] = MovedFrom(d)], NoRet)
            ELSE R(Upd(st, c, Fresh(c)), NoRet)
    [] lb.op = "destroy"      -> R(Upd(st, c, Dead), NoRet)

    [] lb.op = "assignCopy"   -> IF c = d THEN R(st, NoRet) ELSE Growing(st, c, st[d].vals, NoRet)
    [] lb.op = "assignMove"   ->
         IF c = d THEN R(st, NoRet)
         ELSE LET y == st[d] IN
              IF Flav[c] = "fixed"
              THEN R([st EXCEPT ![c] = [x EXCEPT !.vals = y.vals], ![d] = [y EXCEPT !.vals = <<>>]], NoRet)
              ELSE IF y.inl
              THEN \* source inline: elements are moved one by one; the destination keeps its storage, unless it
                   \* is a (stolen) heap buffer too small for them, which is released
                   LET keep == x.inl \/ x.cap >= Len(y.vals)
                       base == IF keep THEN x ELSE Fresh(c)
                   IN R([st EXCEPT ![c] = [base EXCEPT !.vals = y.vals, !.pri = x.pri /\ y.pri],
                                   ![d] = [MovedFrom(d) EXCEPT !.pri = TRUE]], NoRet)
              ELSE \* source heap backed (or amc::vector): its buffer is adopted, ours released
                   R([st EXCEPT ![c] = [ex |-> TRUE, vals |-> y.vals, cap |-> y.cap, inl |-> FALSE,
                                        pri |-> x.pri /\ y.pri],
                                ![d] = [MovedFrom(d) EXCEPT !.pri = TRUE]], NoRet)
    [] lb.op \in {"assignIlist", "assignOpIlist"} -> Growing(st, c, lb.vs, NoRet)      \* assign(il) and v = il
    [] lb.op = "assignN"      -> Growing(st, c, Rep(lb.n, a), NoRet)
    [] lb.op = "assignRange"  ->
         IF lb.it = "input" THEN GrowingEach(st, c, [x EXCEPT !.vals = <<>>], lb.vs, NoRet, Ident)
         ELSE Growing(st, c, lb.vs, NoRet)

    \* emplaceF / emplaceBackF: the constructor argument is a reference to a MEMBER of own element number src
    [] lb.op \in {"insert1", "insert1rv", "emplace", "emplaceF"} -> Growing(st, c, InsertSeq(s, lb.pos, <<a>>), IdxR(lb.pos))
    [] lb.op = "insertN"      -> Growing(st, c, InsertSeq(s, lb.pos, Rep(lb.n, a)), IdxR(lb.pos))
    [] lb.op = "insertRange"  ->
         IF lb.it = "input"
         THEN GrowingEach(st, c, x, lb.vs, IdxR(lb.pos), LAMBDA all : InsertSeq(s, lb.pos, lb.vs))
         ELSE Growing(st, c, InsertSeq(s, lb.pos, lb.vs), IdxR(lb.pos))
    [] lb.op = "insertIlist"  -> Growing(st, c, InsertSeq(s, lb.pos, lb.vs), IdxR(lb.pos))
    [] lb.op \in {"emplaceBack", "emplaceBackF"} -> Growing(st, c, Append(s, a), ValR(a))
    [] lb.op \in {"pushBack", "pushBackRv"} -> Growing(st, c, Append(s, a), NoRet)
    [] lb.op = "popBack"      -> R(Upd(st, c, [x EXCEPT !.vals = SubSeq(s, 1, sz - 1)]), NoRet)
    [] lb.op = "popBackVal"   -> R(Upd(st, c, [x EXCEPT !.vals = SubSeq(s, 1, sz - 1)]), ValR(s[sz]))
    [] lb.op = "erase1"       -> R(Upd(st, c, [x EXCEPT !.vals = EraseRange(s, lb.pos, lb.pos + 1)]), IdxR(lb.pos))
    [] lb.op = "eraseRange"   -> R(Upd(st, c, [x EXCEPT !.vals = EraseRange(s, lb.pos, lb.n)]), IdxR(lb.pos))
    [] lb.op = "resize"       -> Growing(st, c, ResizeTo(s, lb.n, DefVal), NoRet)
    [] lb.op = "resizeVal"    -> Growing(st, c, ResizeTo(s, lb.n, a), NoRet)
    [] lb.op = "clear"        -> R(Upd(st, c, [x EXCEPT !.vals = <<>>]), NoRet)
    [] lb.op \in {"reserve", "reserveBig"} ->
         IF Flav[c] = "fixed"
         THEN IF lb.n > NInl[c] THEN R(st, ExcR("out_of_range")) ELSE R(st, NoRet)
         ELSE R(Upd(st, c, [Grown(c, x, lb.n, TRUE) EXCEPT !.pri = x.pri /\ lb.n <= NInl[c]]), NoRet)
    [] lb.op = "shrinkToFit"  ->
         IF Flav[c] = "fixed" THEN R(st, NoRet)
         ELSE IF Flav[c] = "vector" THEN R(Upd(st, c, [x EXCEPT !.cap = sz, !.pri = (sz = 0)]), NoRet)
         ELSE IF x.inl THEN R(Upd(st, c, [x EXCEPT !.pri = TRUE]), NoRet)
         ELSE IF sz <= NInl[c] THEN R(Upd(st, c, [x EXCEPT !.cap = NInl[c], !.inl = TRUE, !.pri = TRUE]), NoRet)
         ELSE R(Upd(st, c, [x EXCEPT !.cap = sz]), NoRet)
    [] lb.op \in {"swap", "freeSwap"} ->      \* member swap and the free function amc::swap
         \* same type: the two objects exchange their whole state (for FixedCapacityVector: contents only)
         IF c = d THEN R(st, NoRet)
         ELSE LET y == st[d]
                  p == x.pri /\ y.pri
              IN R([st EXCEPT ![c] = [y EXCEPT !.pri = p], ![d] = [x EXCEPT !.pri = p]], NoRet)
    [] lb.op = "swap2"        ->
         LET y == st[d]
             bothDyn == Flav[c] # "fixed" /\ Flav[d] # "fixed"
             \* buffers are exchanged when both are dynamic with the same allocator type, neither uses inline
             \* storage, and each capacity is representable in the other's size_type
             CanSwapBuf(u, w) == bothDyn /\ AllocId[c] = AllocId[d] /\ ~u.inl /\ ~w.inl /\ w.cap <= MaxSz[c] /\ u.cap <= MaxSz[d]
             p == x.pri /\ y.pri
             Exchange(u, w) == R([st EXCEPT ![c] = [u EXCEPT !.vals = y.vals, !.cap = w.cap, !.pri = p],
                                            ![d] = [w EXCEPT !.vals = s, !.cap = u.cap, !.pri = p]], NoRet)
             \* otherwise each operand first gets the capacity for the other's elements (which may throw) ...
             x1 == Grown(c, x, Len(y.vals), FALSE)
             y1 == Grown(d, y, sz, FALSE)
         IN IF c = d THEN R(st, NoRet)
            ELSE IF CanSwapBuf(x, y) THEN Exchange(x, y)
            ELSE IF Len(y.vals) > Limit(c) THEN R(st, ExcR(LimitExc(c)))
            ELSE IF sz > Limit(d) THEN
                 \* the first operand may already have grown when the second one refuses
                 R(Upd(st, c, [x1 EXCEPT !.pri = x.pri /\ Len(y.vals) <= NInl[c]]), ExcR(LimitExc(d)))
            \* ... and the buffers are exchanged after all if that growth made both heap backed
            ELSE IF CanSwapBuf(x1, y1) THEN Exchange(x1, y1)
            ELSE R([st EXCEPT ![c] = [x1 EXCEPT !.vals = y.vals, !.pri = p /\ Len(y.vals) <= NInl[c]],
                              ![d] = [y1 EXCEPT !.vals = s, !.pri = p /\ sz <= NInl[d]]], NoRet)
    [] lb.op = "appendN"      -> Growing(st, c, s \o Rep(lb.n, DefVal), NoRet)
    [] lb.op = "appendNVal"   -> Growing(st, c, s \o Rep(lb.n, a), NoRet)
    [] lb.op = "appendRange"  ->
         IF lb.it = "input" THEN GrowingEach(st, c, x, lb.vs, NoRet, Ident)
         ELSE Growing(st, c, s \o lb.vs, NoRet)
    [] lb.op = "appendIlist"  -> Growing(st, c, s \o lb.vs, NoRet)
    \* a count close to the maximum of size_type (numeric_limits<size_type>::max() - n): size() + count is beyond every
    \* limit, and must be found to be so although the sum does not fit the size type (offered only when it is)
    [] lb.op \in HugeOps      -> R(st, ExcR(LimitExc(c)))
    [] lb.op = "eraseVal"     -> R(Upd(st, c, [x EXCEPT !.vals = RemoveVal(s, lb.v)]), ValR(CountVal(s, lb.v)))
    \* erase_if (C++20): removes every element with v % 2 = n, returns how many
    [] lb.op = "eraseIf"      -> R(Upd(st, c, [x EXCEPT !.vals = SelectSeq(s, LAMBDA e : e % 2 # lb.n)]),
                                   ValR(Cardinality({i \in 1..sz : s[i] % 2 = lb.n})))
    \* writes through the non const accessors: operator[], at, front, back, data(), begin(), rbegin()
    [] lb.op \in {"setIndex", "setData", "setIter", "setRIter"} -> R(Upd(st, c, [x EXCEPT !.vals[lb.n + 1] = lb.v]), NoRet)
    [] lb.op = "setAt"        -> IF lb.n >= sz THEN R(st, ExcR("out_of_range")) ELSE R(Upd(st, c, [x EXCEPT !.vals[lb.n + 1] = lb.v]), NoRet)
    [] lb.op = "setFront"     -> R(Upd(st, c, [x EXCEPT !.vals[1] = lb.v]), NoRet)
    [] lb.op = "setBack"      -> R(Upd(st, c, [x EXCEPT !.vals[sz] = lb.v]), NoRet)

    \* observers (the state is unchanged: C20 (a))
    [] lb.op = "at"           -> IF lb.n >= sz THEN R(st, ExcR("out_of_range")) ELSE R(st, ValR(s[lb.n + 1]))
    [] lb.op = "index"        -> R(st, ValR(s[lb.n + 1]))
    [] lb.op = "front"        -> R(st, ValR(s[1]))
    [] lb.op = "back"         -> R(st, ValR(s[sz]))
    [] lb.op = "eq"           -> R(st, BoolR(s = st[d].vals))
    [] lb.op = "ne"           -> R(st, BoolR(s # st[d].vals))
    [] lb.op = "lt"           -> R(st, BoolR(LexLess(s, st[d].vals)))
    [] lb.op = "le"           -> R(st, BoolR(~LexLess(st[d].vals, s)))
    [] lb.op = "gt"           -> R(st, BoolR(LexLess(st[d].vals, s)))
    [] lb.op = "ge"           -> R(st, BoolR(~LexLess(s, st[d].vals)))
    [] lb.op = "maxSize"      -> R(st, ValR(Limit(c)))      \* N of a FixedCapacityVector, else the maximum of size_type
    [] lb.op = "iterate"      -> R(st, ValR(sz))  \* walks begin..end and rbegin..rend: number of steps, -1 if the two disagree
    \* the object is moved to another address (memcpy when it claims to be trivially relocatable): C14
    [] lb.op = "relocate"     -> R(st, NoRet)

-----------------------------------------------------------------------------
(* Which labels are legal calls in a state (preconditions of the C++ API), within the bounds of a model.          *)

MutOps1 == {"emplaceF", "emplaceBackF", "assignIlist", "assignN", "assignRange", "insert1", "insert1rv", "emplace", "insertN", "insertRange",
            "insertIlist", "emplaceBack", "pushBack", "pushBackRv", "popBack", "popBackVal", "erase1", "eraseRange",
            "resize", "resizeVal", "clear", "reserve", "shrinkToFit", "appendN", "appendNVal", "appendRange",
            "appendIlist", "eraseVal", "eraseIf", "assignOpIlist", "setIndex", "setData", "setIter", "setRIter", "setAt", "setFront", "setBack"}
SetOps == {"setIndex", "setData", "setIter", "setRIter", "setAt", "setFront", "setBack"}
ObsOps1 == {"at", "index", "front", "back", "iterate", "relocate", "maxSize"}
CtorOps1 == {"ctorDefault", "ctorCount", "ctorCountVal", "ctorRange", "ctorIlist"}
CtorOpsBig == CtorOps1 \cup {"ctorCountBig"}
BinSame == {"assignCopy", "assignMove", "swap", "freeSwap", "eq", "ne", "lt", "le", "gt", "ge"}
AliasOps == {"emplaceF", "emplaceBackF", "pushBack", "insert1", "insertN", "emplace", "emplaceBack", "resizeVal", "assignN", "appendNVal"}
AllOps == MutOps1 \cup ObsOps1 \cup CtorOps1 \cup BinSame \cup {"ctorCopy", "ctorMove", "ctorFromVector", "destroy", "swap2"}
AllOpsBig == AllOps \cup {"reserveBig", "ctorCountBig"} \cup HugeOps

\* Vals: value domain;  MaxLen: bound on the size;  MaxCnt: bound on counts;  Its: iterator kinds;
\* RLens: lengths of range arguments;  Alias: offer value arguments that refer to own elements (C10);
\* Near: width of the explored neighbourhood below a limit <= 300 (0 = off).
\* Labels of operation o on slot c that are legal calls in state st (one small set per operation, so that a random
\* driver can pick an operation first and never has to build the set of all labels).
OpLabels(st, c, o, Vals, MaxLen, MaxCnt, Its, RLens, Alias, Near) ==
  LET Ranges == UNION {[1..m -> Vals] : m \in RLens}
      \* sizes explored: up to MaxLen, and the neighbourhood of the limit (N of a FixedCapacityVector, the maximum of
      \* a narrow size_type), entered by a count constructor (C08)
      \* (Near = 0: only calls that overflow the limit by at most MaxCnt are offered beyond MaxLen)
      NearLimit(need) == \/ (need > Limit(c) /\ need <= Limit(c) + MaxCnt)
                         \/ (Near > 0 /\ Limit(c) <= 300 /\ need >= Limit(c) - Near /\ need <= Limit(c))
      Fits(need) == need <= MaxLen \/ NearLimit(need)
      sz == Len(st[c].vals)
      big == sz > MaxLen
      \* beyond MaxLen only first / middle / last positions are offered
      Pos == IF big THEN {0, sz \div 2, sz} ELSE 0..sz
      PosE == IF big THEN {0, sz \div 2, sz - 1} ELSE 0..sz - 1
      \* counts: small ones, and (near a limit) the ones that land just below / on / above the limit from here
      Cnts(base) == {m \in 0..MaxCnt : Fits(base + m)} \cup
                    (IF Near > 0 /\ Limit(c) <= 300
                     THEN {m \in (Limit(c) - 1 - base)..(Limit(c) + 2 - base) : m >= 0 /\ m <= MaxSz[c]} ELSE {})
      \* a count / size argument is a size_type: it cannot exceed MaxSz
      Sizes == {n \in (IF big THEN (0..1) \cup {m \in sz..(sz + MaxCnt) : Fits(m)} ELSE {m \in 0..sz + MaxCnt : Fits(m)}) : n <= MaxSz[c]}
      \* (also: a size that is exactly / just beyond the maximum of another slot's narrower size_type, for swap2)
      NarrowEdges == IF Flav[c] = "fixed" THEN {}
                     ELSE UNION {{MaxSz[e], MaxSz[e] + 1} : e \in {f \in Slots \ {c} : Flav[f] # "fixed" /\ MaxSz[f] < MaxSz[c] /\ MaxSz[f] <= 300}}
      CtorCnts == {n \in {m \in 0..MaxCnt + 1 : Fits(m)} \cup (IF Near > 0 /\ Limit(c) <= 300 THEN (Limit(c) - Near)..(Limit(c) + 1) ELSE {})
                          \cup (IF o \in {"ctorCount", "ctorCountVal"} THEN NarrowEdges ELSE {}) : n <= MaxSz[c]}
      Own == IF big THEN {1, sz} ELSE 1..sz
      Srcs == {<<v, 0>> : v \in Vals} \cup (IF Alias /\ o \in AliasOps THEN {<<0, j>> : j \in Own} ELSE {})
      Same == {e \in Slots : st[e].ex /\ SameType(c, e)}
  IN
  IF ~st[c].ex
  THEN \* constructors for a slot that does not exist
    CASE o = "ctorDefault"  -> {Lbl(o, c, 0, 0, 0, 0, 0, "", <<>>)}
      [] o = "ctorCount"    -> {Lbl(o, c, 0, 0, n, 0, 0, "", <<>>) : n \in CtorCnts}
      [] o = "ctorCountVal" -> {Lbl(o, c, 0, 0, n, v, 0, "", <<>>) : n \in CtorCnts, v \in Vals}
      \* more elements than an 8-bit size_type can count (swap2 with a vector whose SIZE does not fit the other's size_type)
      [] o = "ctorCountBig" -> IF Flav[c] # "fixed" /\ MaxSz[c] >= BigCap /\ (\E e \in Slots \ {c} : Flav[e] # "fixed" /\ MaxSz[e] < BigCap)
                               THEN {Lbl(o, c, 0, 0, BigCap, 0, 0, "", <<>>)} ELSE {}
      [] o = "ctorRange"    -> {Lbl(o, c, 0, 0, 0, 0, 0, it, vs) : it \in Its, vs \in {r \in Ranges : Fits(Len(r))}}
      [] o = "ctorIlist"    -> {Lbl(o, c, 0, 0, 0, 0, 0, "", vs) : vs \in {r \in Ranges : Fits(Len(r))}}
      [] o \in {"ctorCopy", "ctorMove"} -> {Lbl(o, c, d, 0, 0, 0, 0, "", <<>>) : d \in Same \ {c}}
      [] o = "ctorFromVector" ->
           {Lbl(o, c, d, 0, 0, 0, 0, "", <<>>) :
               d \in {e \in Slots : e # c /\ st[e].ex /\ Flav[c] = "small" /\ Flav[e] = "vector" /\ MaxSz[c] = MaxSz[e]
                                    /\ AllocId[c] = AllocId[e]}}
      [] OTHER -> {}
  ELSE
    CASE o \in {"assignIlist", "assignOpIlist"} -> {Lbl(o, c, 0, 0, 0, 0, 0, "", vs) : vs \in Ranges}
      [] o = "assignN"      -> {Lbl(o, c, 0, 0, n, a[1], a[2], "", <<>>) : n \in CtorCnts, a \in Srcs}
      [] o = "assignRange"  -> {Lbl(o, c, 0, 0, 0, 0, 0, it, vs) : it \in Its, vs \in Ranges}
      [] o \in {"insert1", "emplace"} ->
           {Lbl(o, c, 0, p, 0, a[1], a[2], "", <<>>) : p \in {q \in Pos : Fits(sz + 1)}, a \in Srcs}
      [] o = "emplaceF"     -> {Lbl(o, c, 0, p, 0, 0, j, "", <<>>) : p \in {q \in Pos : Alias /\ Fits(sz + 1)}, j \in Own}
      [] o = "emplaceBackF" -> {Lbl(o, c, 0, 0, 0, 0, j, "", <<>>) : j \in {i \in Own : Alias /\ Fits(sz + 1)}}
      [] o = "insert1rv"    -> {Lbl(o, c, 0, p, 0, v, 0, "", <<>>) : p \in {q \in Pos : Fits(sz + 1)}, v \in Vals}
      [] o = "insertN"      -> {Lbl(o, c, 0, p, n, a[1], a[2], "", <<>>) : p \in Pos, n \in Cnts(sz), a \in Srcs}
      [] o = "insertRange"  -> {Lbl(o, c, 0, p, 0, 0, 0, it, vs) : p \in Pos, it \in Its,
                                                                  vs \in {r \in Ranges : Fits(sz + Len(r))}}
      [] o = "insertIlist"  -> {Lbl(o, c, 0, p, 0, 0, 0, "", vs) : p \in Pos, vs \in {r \in Ranges : Fits(sz + Len(r))}}
      [] o \in {"emplaceBack", "pushBack"} ->
           {Lbl(o, c, 0, 0, 0, a[1], a[2], "", <<>>) : a \in {b \in Srcs : Fits(sz + 1)}}
      [] o = "pushBackRv"   -> {Lbl(o, c, 0, 0, 0, v, 0, "", <<>>) : v \in {w \in Vals : Fits(sz + 1)}}
      \* (a vector far beyond MaxLen only shrinks through clear, destroy, moves and swaps: no chain of 300 pop_backs)
      [] o \in {"popBack", "popBackVal"} -> IF sz > 0 /\ (sz <= MaxLen + MaxCnt + 1 \/ Near > 0) THEN {Lbl(o, c, 0, 0, 0, 0, 0, "", <<>>)} ELSE {}
      [] o \in {"front", "back"} -> IF sz > 0 THEN {Lbl(o, c, 0, 0, 0, 0, 0, "", <<>>)} ELSE {}
      [] o = "erase1"       -> {Lbl(o, c, 0, p, 0, 0, 0, "", <<>>) : p \in PosE}
      [] o = "eraseRange"   -> {Lbl(o, c, 0, pq[1], pq[2], 0, 0, "", <<>>) : pq \in {w \in Pos \X Pos : w[1] <= w[2]}}
      [] o = "resize"       -> {Lbl(o, c, 0, 0, n, 0, 0, "", <<>>) : n \in Sizes}
      [] o = "resizeVal"    -> {Lbl(o, c, 0, 0, n, a[1], a[2], "", <<>>) : n \in Sizes, a \in Srcs}
      [] o \in {"clear", "shrinkToFit", "iterate", "relocate", "destroy", "maxSize"} -> {Lbl(o, c, 0, 0, 0, 0, 0, "", <<>>)}
      [] o = "reserve"      -> {Lbl(o, c, 0, 0, n, 0, 0, "", <<>>) :
                                  n \in {m \in 0..MaxLen + 1 : m <= MaxLen \/ Flav[c] = "fixed"} \cup
                                        (IF Near > 0 /\ Limit(c) <= 300 THEN (Limit(c) - 1)..Min(Limit(c) + 1, MaxSz[c]) ELSE {}) \cup
                                        \* a capacity that is exactly / just beyond the maximum of another slot's narrower size_type (swap2)
                                        (IF Flav[c] = "fixed" THEN {}
                                         ELSE {m \in UNION {{MaxSz[e], MaxSz[e] + 1} : e \in {f \in Slots \ {c} : Flav[f] # "fixed" /\ MaxSz[f] < MaxSz[c] /\ MaxSz[f] <= 300}} :
                                                 m <= MaxSz[c]})}
      \* a capacity beyond an 8-bit size_type (swap2 between vectors of different size_type)
      [] o = "reserveBig"   -> IF Flav[c] # "fixed" /\ MaxSz[c] >= BigCap THEN {Lbl(o, c, 0, 0, BigCap, 0, 0, "", <<>>)} ELSE {}
      [] o = "appendN"      -> {Lbl(o, c, 0, 0, n, 0, 0, "", <<>>) : n \in Cnts(sz)}
      [] o = "appendNVal"   -> {Lbl(o, c, 0, 0, n, a[1], a[2], "", <<>>) : n \in Cnts(sz), a \in Srcs}
      [] o = "appendRange"  -> {Lbl(o, c, 0, 0, 0, 0, 0, it, vs) : it \in Its, vs \in {r \in Ranges : Fits(sz + Len(r))}}
      [] o = "appendIlist"  -> {Lbl(o, c, 0, 0, 0, 0, 0, "", vs) : vs \in {r \in Ranges : Fits(sz + Len(r))}}
      [] o = "eraseVal"     -> {Lbl(o, c, 0, 0, 0, v, 0, "", <<>>) : v \in Vals}
      [] o \in HugeOps      -> {Lbl(o, c, 0, p, n, v, 0, "", <<>>) : p \in (IF o = "insertNHuge" THEN Pos ELSE {0}),
                                                                   n \in {m \in 0..1 : sz + MaxSz[c] - m > Limit(c)}, v \in Vals}
      [] o = "eraseIf"      -> {Lbl(o, c, 0, 0, n, 0, 0, "", <<>>) : n \in 0..1}
      [] o \in {"setIndex", "setData", "setIter", "setRIter"} -> {Lbl(o, c, 0, 0, n, v, 0, "", <<>>) : n \in PosE, v \in Vals}
      [] o = "setAt"        -> {Lbl(o, c, 0, 0, n, v, 0, "", <<>>) : n \in {m \in (IF big THEN {0, sz - 1, sz} ELSE 0..sz) : m <= MaxSz[c]}, v \in Vals}
      [] o \in {"setFront", "setBack"} -> IF sz > 0 THEN {Lbl(o, c, 0, 0, 0, v, 0, "", <<>>) : v \in Vals} ELSE {}
      [] o = "at"           -> {Lbl(o, c, 0, 0, n, 0, 0, "", <<>>) : n \in {m \in (IF big THEN {0, sz - 1, sz, sz + 1} ELSE 0..sz + 1) : m <= MaxSz[c]}}
      [] o = "index"        -> {Lbl(o, c, 0, 0, n, 0, 0, "", <<>>) : n \in PosE}
      \* v = std::move(v) leaves a std::vector in a valid but unspecified state: not part of the contract
      [] o \in BinSame      -> {Lbl(o, c, d, 0, 0, 0, 0, "", <<>>) : d \in IF o = "assignMove" THEN Same \ {c} ELSE Same}
      [] o = "swap2"        -> {Lbl(o, c, d, 0, 0, 0, 0, "", <<>>) : d \in {e \in Slots : st[e].ex /\ e # c}}
      [] OTHER -> {}

LabelsOf(st, Ops, Vals, MaxLen, MaxCnt, Its, RLens, Alias, Near) ==
  UNION {OpLabels(st, c, o, Vals, MaxLen, MaxCnt, Its, RLens, Alias, Near) : c \in Slots, o \in Ops}

-----------------------------------------------------------------------------
(* Invariants of the design, checked by TLC on every reachable state of a model *)

TypeOK(st) ==
  \A c \in Slots :
     /\ st[c].ex \in BOOLEAN /\ st[c].inl \in BOOLEAN /\ st[c].pri \in BOOLEAN
     /\ st[c].cap \in Nat

SizeLeCap(st) == \A c \in Slots : st[c].ex => Len(st[c].vals) <= st[c].cap /\ st[c].cap <= Limit(c)

InlineMeansN(st) ==
  \A c \in Slots : st[c].ex =>
     /\ (st[c].inl => st[c].cap = NInl[c])
     /\ (Flav[c] = "fixed" => st[c].inl)
     /\ (Flav[c] = "vector" => ~st[c].inl)

\* C05 on the design: a pristine container uses its inline storage with capacity exactly N
PristineImpliesInline(st) ==
  \A c \in Slots : st[c].ex /\ st[c].pri => st[c].cap = Cap0(c) /\ st[c].inl = Inl0(c)

\* C07 on the design: capacity never decreases except through shrink_to_fit, a move or a swap
CapExempt == {"shrinkToFit", "ctorMove", "assignMove", "swap", "freeSwap", "swap2", "ctorFromVector", "destroy"}
CapMonotoneStep(st, lb, st2) ==
  \A c \in Slots : (st[c].ex /\ st2[c].ex /\ lb.op \notin CapExempt) => st2[c].cap >= st[c].cap
ReserveStep(st, lb, st2) == (lb.op \in {"reserve", "reserveBig"} /\ Flav[lb.c] # "fixed") => st2[lb.c].cap >= lb.n
=============================================================================
