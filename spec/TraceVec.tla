------------------------------- MODULE TraceVec -------------------------------
(* Trace validation for the vector flavours.                                                                      *)
(*                                                                                                                *)
(* The trace (ndjson, env TRACE) is a recording of real executions: one "config" line describing the pool, then   *)
(* one "op" event per public call (label, return value / exception, the observed state of every slot, the        *)
(* element life-cycle events and the allocator events of that call), "reset" between executions.                  *)
(*                                                                                                                *)
(* Every step consumes one line.  For an "op" line the specification (Vec!Step) computes what the call must have  *)
(* produced from the state BEFORE the call, every property's step predicate is evaluated on                       *)
(* (state before, label, observation), failures are recorded in `viol` (property id, line, reason), and the       *)
(* state adopts the observation - so one divergence is reported once and does not cascade.  The run is accepted   *)
(* iff every line was consumed (POSTCONDITION) and `viol` is empty; the driver reads both from TLC's output.      *)
EXTENDS Vec, TLC, Json, IOUtils, SequencesExt

TraceLog == ndJsonDeserialize(IOEnv.TRACE)
Cfg      == TraceLog[1]

\* constants of Vec, read from the config line (substituted in the .cfg file)
TK      == Len(Cfg.slots)
TFlav   == [c \in 1..TK |-> Cfg.slots[c].flav]
TNInl   == [c \in 1..TK |-> Cfg.slots[c].n]
TMaxSz  == [c \in 1..TK |-> Cfg.slots[c].maxsz]
TTypeId == [c \in 1..TK |-> Cfg.slots[c].tid]
TAllocId == [c \in 1..TK |-> Cfg.slots[c].aid]
IsRef(c) == Cfg.slots[c].ref               \* reference implementation (std::vector): contract only
Cat     == Cfg.elem                         \* "TC" | "TR" | "NTR"
ESize   == Cfg.esize
AllocInstrumented == Cfg.alloc \in {"amcled", "stdlike", "withrealloc"}
AllocHasRealloc   == Cfg.alloc \in {"amcled", "withrealloc", "amc"}
NoexceptMove      == Cfg.nxmove

MaxViol == 40

VARIABLES l,        \* next line of the trace
          st,       \* pool state (vals / cap / inl adopted from the observation, pri from the contract)
          last,     \* observation of every slot after the previous call (ids, address tokens, buffer token)
          objs,     \* C02 ledger: id of every live element object -> address token where it was constructed / last seen
          blocks,   \* C06 ledger: token of every outstanding block -> its size in bytes
          gh,       \* ghosts per slot: buf0 (C05 begin() stability), appendRun / reallocRun / relocRun / startSize (C18), reloc (C14)
          viol,     \* recorded violations
          stats     \* counters reported as evidence
vars == <<l, st, last, objs, blocks, gh, viol, stats>>

DeadObs == [ex |-> FALSE]
Gh0 == [buf0 |-> 0, appendRun |-> 0, reallocRun |-> 0, relocRun |-> 0, startSize |-> 0, reloc |-> FALSE]
Stats0 == [ops |-> 0, execs |-> 0, drift |-> 0, faults |-> 0, limitExc |-> 0, alias |-> 0, nullDealloc |-> 0,
           prims |-> 0, allocEvents |-> 0, stable |-> 0, handover |-> 0, pristineOps |-> 0, skipped |-> 0, driftAt |-> <<>>, constOps |-> 0]

Put(f, k, v) == [x \in DOMAIN f \cup {k} |-> IF x = k THEN v ELSE f[x]]
Del(f, k) == [x \in DOMAIN f \ {k} |-> f[x]]
SeqToSet(s) == {s[i] : i \in 1..Len(s)}

TInit == /\ l = 2
         /\ st = InitState
         /\ last = [c \in Slots |-> DeadObs]
         /\ objs = <<>>
         /\ blocks = <<>>
         /\ gh = [c \in Slots |-> Gh0]
         /\ viol = <<>>
         /\ stats = Stats0

-----------------------------------------------------------------------------
(* Is the label a legal call in the (adopted) state?  Walks come from the model, so this only fails after a       *)
(* divergence has already been reported, or when the harness and the model disagree about the label language.     *)
Legal(s, lb) ==
  /\ lb.c \in Slots
  /\ lb.d \in Slots \cup {0}
  /\ IF lb.op \in CtorOpsBig \cup {"ctorCopy", "ctorMove", "ctorFromVector"}
     THEN ~s[lb.c].ex /\ (lb.d # 0 => s[lb.d].ex /\ lb.d # lb.c)
     ELSE /\ s[lb.c].ex
          /\ (lb.d # 0 => s[lb.d].ex)
          /\ LET sz == Len(s[lb.c].vals) IN
             /\ lb.src <= sz
             /\ (lb.op \in {"insert1", "insert1rv", "emplace", "emplaceF", "insertN", "insertRange", "insertIlist"} => lb.pos <= sz)
             /\ (lb.op = "erase1" => lb.pos < sz)
             /\ (lb.op = "eraseRange" => lb.pos <= lb.n /\ lb.n <= sz)
             /\ (lb.op \in {"popBack", "popBackVal", "front", "back"} => sz > 0)
             /\ (lb.op \in {"index", "setIndex", "setData", "setIter", "setRIter"} => lb.n < sz)
             /\ (lb.op \in {"setFront", "setBack"} => sz > 0)
  /\ lb.op \in AllOpsBig

Parts(lb) == {lb.c} \cup ({lb.d} \ {0})

\* which property owns the "same result as std::vector" predicate for this call
ValueOwner(lb, exp, r) ==
  IF lb.k > 0 /\ r.k = "exc" /\ r.s \in {"injected", "bad_alloc"} THEN {"C09"}
  ELSE IF lb.op = "swap2" THEN (IF exp.ret.k = "exc" THEN {"C13", "C08"} ELSE {"C13"})      \* (an impossible exchange is a limit error)
  ELSE IF lb.src > 0 THEN {"C10", "C01"}      \* (a call whose argument is an own element is also one of C01's calls)
  ELSE IF exp.ret.k = "exc" THEN {"C08"}
  ELSE IF lb.op = "relocate" THEN {"C14"}
  ELSE {"C01"}

\* C09: operations for which the headers document the strong guarantee (element moves being noexcept)
StrongOp(s, lb) ==
  \/ lb.op \in {"pushBack", "pushBackRv", "emplaceBack", "emplaceBackF", "insert1", "insert1rv", "emplace", "emplaceF", "appendN", "appendNVal",
                "appendIlist", "resize", "resizeVal", "reserve", "shrinkToFit", "ctorCopy"}
  \/ (lb.op = "appendRange" /\ lb.it # "input")
  \/ (lb.op \in {"insertN", "insertIlist"} /\ lb.pos = Len(s[lb.c].vals))
  \/ (lb.op = "insertRange" /\ lb.pos = Len(s[lb.c].vals) /\ lb.it # "input")

-----------------------------------------------------------------------------
(* C02 ledger: fold over the element life-cycle events of one call.  p = <<kind, id, tok, srcId, srcTok>>         *)
LedObj0(o) == [objs |-> o, bad |-> <<>>]
BadO(L, why, p) == [L EXCEPT !.bad = IF Len(@) < 4 THEN Append(@, <<why, p>>) ELSE @]
Known(L, id) == id \in DOMAIN L.objs
\* a non relocatable object may never be found at another address than the one it was constructed at
\* (token 0: address not tracked, after a call evaluated in batch mode)
AddrOK(L, id, tok) == Cat # "NTR" \/ L.objs[id] = tok \/ L.objs[id] = 0
Occupied(L, tok) == \E j \in DOMAIN L.objs : L.objs[j] = tok
ApplyPrim(L, p) ==
  LET kind == p[1] id == p[2] tok == p[3] sid == p[4] stok == p[5] IN
  CASE kind = "ctor" ->
         IF Known(L, id) THEN BadO(L, "ctor-id-reused", p)
         ELSE IF Cat = "NTR" /\ Occupied(L, tok) THEN BadO(L, "ctor-over-live-object", p)
         ELSE [L EXCEPT !.objs = Put(@, id, tok)]
    [] kind \in {"cctor", "mctor"} ->
         IF ~Known(L, sid) THEN BadO([L EXCEPT !.objs = Put(@, id, tok)], "read-outside-lifetime", p)
         ELSE IF ~AddrOK(L, sid, stok) THEN BadO([L EXCEPT !.objs = Put(@, id, tok)], "source-moved-by-bytes", p)
         ELSE IF Cat = "NTR" /\ Occupied(L, tok) THEN BadO(L, "ctor-over-live-object", p)
         ELSE [L EXCEPT !.objs = Put(Put(@, sid, stok), id, tok)]
    [] kind \in {"casg", "masg"} ->
         IF ~Known(L, id) THEN BadO(L, "assign-outside-lifetime", p)
         ELSE IF ~Known(L, sid) THEN BadO(L, "read-outside-lifetime", p)
         ELSE IF kind = "masg" /\ id = sid THEN BadO(L, "self-move-assignment", p)
         ELSE IF ~AddrOK(L, id, tok) \/ ~AddrOK(L, sid, stok) THEN BadO(L, "object-moved-by-bytes", p)
         ELSE [L EXCEPT !.objs = Put(Put(@, sid, stok), id, tok)]
    [] kind = "dtor" ->
         IF ~Known(L, id) THEN BadO(L, "destroyed-twice-or-never-alive", p)
         ELSE IF ~AddrOK(L, id, tok) THEN BadO([L EXCEPT !.objs = Del(@, id)], "object-moved-by-bytes", p)
         ELSE [L EXCEPT !.objs = Del(@, id)]
    [] kind = "masg_self_mf" -> IF ~Known(L, id) THEN BadO(L, "assign-outside-lifetime", p) ELSE L
    [] kind = "badself" -> BadO(L, "self-pointer-broken-by-byte-copy", p)
    [] kind = "badread" -> BadO(L, "single-pass-range-read-twice", p)
    [] OTHER -> BadO(L, "unknown-event", p)

(* Batch evaluation of the same rules for calls with very many life-cycle events (a vector of 250 elements being     *)
(* constructed or destroyed): the events are classified with set comprehensions instead of being folded one by one, *)
(* which loses only the order of events WITHIN the call (ids are never reused, so creation / destruction counts and *)
(* membership are still exact) and the per-object address (re-synchronised from the next observation).              *)
BatchAt == 32
BatchLedger(o, prims) ==
  LET n == Len(prims)
      ctorI == {i \in 1..n : prims[i][1] \in {"ctor", "cctor", "mctor"}}
      dtorI == {i \in 1..n : prims[i][1] = "dtor"}
      ctorIds == {prims[i][2] : i \in ctorI}
      dtorIds == {prims[i][2] : i \in dtorI}
      live0 == DOMAIN o
      reach == live0 \cup ctorIds
      bad ==
        IF Cardinality(ctorIds) # Cardinality(ctorI) \/ ctorIds \cap live0 # {} THEN <<<<"ctor-id-reused", <<>>>>>>
        ELSE IF Cardinality(dtorIds) # Cardinality(dtorI) \/ ~(dtorIds \subseteq reach) THEN <<<<"destroyed-twice-or-never-alive", <<>>>>>>
        ELSE IF \E i \in 1..n : prims[i][1] \in {"cctor", "mctor", "casg", "masg"} /\ prims[i][4] \notin reach
             THEN <<<<"read-outside-lifetime", <<>>>>>>
        ELSE IF \E i \in 1..n : prims[i][1] \in {"casg", "masg", "masg_self_mf"} /\ prims[i][2] \notin reach
             THEN <<<<"assign-outside-lifetime", <<>>>>>>
        ELSE IF \E i \in 1..n : prims[i][1] = "masg" /\ prims[i][2] = prims[i][4] THEN <<<<"self-move-assignment", <<>>>>>>
        ELSE IF \E i \in 1..n : prims[i][1] = "badself" THEN <<<<"self-pointer-broken-by-byte-copy", <<>>>>>>
        ELSE IF \E i \in 1..n : prims[i][1] = "badread" THEN <<<<"single-pass-range-read-twice", <<>>>>>>
        ELSE <<>>
  IN [objs |-> [id \in reach \ dtorIds |-> 0], bad |-> bad]

(* C06 ledger.  a = <<kind, tok1, tok2, n1, n2, live>>  (sizes in bytes) *)
LedBlk0(b) == [blocks |-> b, bad |-> <<>>, nullDealloc |-> 0]
\* a block is recorded with its size in bytes plus TagUnit times the tag of the allocator TYPE it came from (7th field of
\* an event, 0 when absent): it has to go back with the same size to an allocator of the same type
TagUnit == 16777216
TagKey(a) == IF Len(a) >= 7 THEN a[7] * TagUnit ELSE 0
BadB(L, why, a) == [L EXCEPT !.bad = IF Len(@) < 4 THEN Append(@, <<why, a>>) ELSE @]
ApplyAlloc(sizes, L, a) ==   \* sizes: admissible live-element counts for a reallocate in this call
  LET kind == a[1] t1 == a[2] t2 == a[3] n1 == a[4] n2 == a[5] live == a[6] IN
  CASE kind = "alloc" ->
         IF t1 \in DOMAIN L.blocks THEN BadB(L, "block-handed-out-twice", a)
         ELSE [L EXCEPT !.blocks = Put(@, t1, n1 + TagKey(a))]
    [] kind = "dealloc" ->
         IF t1 = 0 /\ n1 = 0 THEN [L EXCEPT !.nullDealloc = @ + 1]      \* deallocate(nullptr, 0): not a block
         ELSE IF t1 \notin DOMAIN L.blocks THEN BadB(L, "dealloc-of-unknown-or-freed-block", a)
         ELSE IF L.blocks[t1] # n1 + TagKey(a)
              THEN BadB([L EXCEPT !.blocks = Del(@, t1)],
                        IF L.blocks[t1] % TagUnit = n1 THEN "block-handed-back-to-an-allocator-of-another-type" ELSE "dealloc-with-wrong-size", a)
         ELSE [L EXCEPT !.blocks = Del(@, t1)]
    [] kind = "realloc" ->
         IF Cat = "NTR" THEN BadB(L, "reallocate-used-for-non-relocatable-type", a)
         ELSE IF t1 = 0 /\ n1 = 0 THEN [L EXCEPT !.blocks = Put(@, t2, n2)]
         ELSE IF t1 \notin DOMAIN L.blocks THEN BadB(L, "realloc-of-unknown-block", a)
         ELSE IF L.blocks[t1] # n1 THEN BadB([L EXCEPT !.blocks = Put(Del(@, t1), t2, n2)], "realloc-with-wrong-old-capacity", a)
         ELSE IF live >= 0 /\ (live \notin sizes \/ live * ESize > n1 \/ live * ESize > n2)
              THEN BadB([L EXCEPT !.blocks = Put(Del(@, t1), t2, n2)], "realloc-with-wrong-live-count", a)
         ELSE [L EXCEPT !.blocks = Put(Del(@, t1), t2, n2)]
    [] OTHER -> BadB(L, "unknown-event", a)

NAllocReq(as) == Cardinality({i \in 1..Len(as) : as[i][1] \in {"alloc", "realloc"}})

-----------------------------------------------------------------------------
(* number of leading elements that an operation must not touch when it does not reallocate (C07) *)
StablePrefix(s, lb) ==
  LET sz == Len(s[lb.c].vals) IN
  CASE lb.op \in {"insert1", "insert1rv", "emplace", "emplaceF", "insertN", "insertRange", "insertIlist", "erase1", "eraseRange"} -> lb.pos
    [] lb.op \in {"pushBack", "pushBackRv", "emplaceBack", "emplaceBackF", "appendN", "appendNVal", "appendRange", "appendIlist",
                  "reserve", "reserveBig", "at", "index", "front", "back", "iterate", "eq", "ne", "lt", "le", "gt", "ge", "maxSize"} \cup SetOps -> sz
    [] lb.op \in {"resize", "resizeVal"} -> Min(sz, lb.n)
    [] lb.op \in {"popBack", "popBackVal"} -> sz - 1
    [] OTHER -> 0

GrowOps == {"pushBack", "pushBackRv", "emplaceBack", "emplaceBackF", "emplace", "emplaceF", "insert1", "insert1rv", "insertN", "insertRange",
            "insertIlist", "resize", "resizeVal", "appendN", "appendNVal", "appendRange", "appendIlist"}
Observers == {"at", "index", "front", "back", "iterate", "eq", "ne", "lt", "le", "gt", "ge", "maxSize"}
AppendOps == {"pushBack", "pushBackRv", "emplaceBack", "emplaceBackF"}

AddViol(v, ps, ln, why) ==
  LET new == SetToSeq({[p |-> q, l |-> ln, why |-> why] : q \in ps}) IN
  IF Len(v) >= MaxViol THEN v ELSE v \o new

-----------------------------------------------------------------------------
TOp ==
  /\ l <= Len(TraceLog)
  /\ TraceLog[l].e = "op"
  /\ LET ev  == TraceLog[l]
         lb  == ev.lbl
         r   == ev.ret
         obs == ev.obs
     IN
     IF r.k = "crash"
     THEN \* the implementation crashed / aborted / hung inside this call; the execution ends here
          /\ viol' = AddViol(viol, {"C01", "C02"} \cup (IF lb.op = "swap2" THEN {"C13"} ELSE {}) \cup
                                   (IF lb.k > 0 THEN {"C09"} ELSE {}) \cup (IF lb.src > 0 THEN {"C10"} ELSE {}) \cup
                                   \* a call that had to be refused with a limit error
                                   (IF Legal(st, lb) /\ Step(st, lb).ret.k = "exc" THEN {"C08"} ELSE {}) \cup
                                   (IF lb.op = "relocate" \/ (lb.c \in Slots /\ gh[lb.c].reloc) THEN {"C14"} ELSE {}),
                            l, "crash:" \o r.s)
          /\ UNCHANGED <<st, last, objs, blocks, gh, stats>>
          /\ l' = l + 1
     ELSE IF r.k \in {"skipped", "unsupported"} \/ ~Legal(st, lb)
     THEN /\ viol' = IF viol = <<>> THEN AddViol(viol, {"MODEL"}, l, "label not executable: " \o r.k) ELSE viol
          /\ stats' = [stats EXCEPT !.skipped = @ + 1]
          /\ UNCHANGED <<st, last, objs, blocks, gh>>
          /\ l' = l + 1
     ELSE
     LET c    == lb.c
         exp  == Step(st, lb)
         faulted == lb.k > 0 /\ r.k = "exc" /\ r.s \in {"injected", "bad_alloc"}
         thrownByMove == faulted /\ "tm" \in DOMAIN ev /\ ev.tm
         exs  == {x \in Slots : obs[x].ex}
         \* ---- values (C01 / C08 / C09 / C10 / C13 / C14)
         ShapeOK == \A x \in exs : /\ obs[x].size = Len(obs[x].vals)
                                   /\ obs[x].empty = (obs[x].size = 0)
         ValsAs(t) == /\ \A x \in Slots : obs[x].ex = t[x].ex
                      /\ \A x \in exs : obs[x].vals = t[x].vals
         \* assign(first, last) from a single pass range that turns out to exceed the limit: the old elements are
         \* gone before the length of the range is known (restoring them would need a second buffer, which C05 forbids
         \* to a FixedCapacityVector), so the contract accepts "unchanged" or "a prefix of the range" (basic guarantee)
         AssignInputPartial ==
           /\ lb.op = "assignRange" /\ lb.it = "input" /\ exp.ret.k = "exc"
           /\ \A x \in Slots \ {c} : obs[x].ex = st[x].ex /\ (obs[x].ex => obs[x].vals = st[x].vals)
           /\ obs[c].ex
           /\ \E n \in 0..Len(lb.vs) : obs[c].vals = SubSeq(lb.vs, 1, n)
         valueFail ==
           IF faulted
           THEN IF ~ShapeOK THEN "size()/empty() inconsistent with the elements after an exception"
                ELSE IF \E x \in Slots : obs[x].ex # st[x].ex /\ ~(lb.op = "destroy")
                     THEN "object came into existence although its constructor threw"
                ELSE IF StrongOp(st, lb) /\ NoexceptMove /\ ~ValsAs(st) THEN "strong guarantee: contents changed by a failed call"
                ELSE ""
           ELSE IF ~ShapeOK THEN "size()/empty() inconsistent with the elements"
                ELSE IF ~ValsAs(exp.st) /\ ~AssignInputPartial THEN "contents differ from std::vector"
                ELSE IF r # exp.ret THEN "return value / exception differs from std::vector"
                \* C08: a limit error leaves the capacity as it was (a single pass range is only found to be too long
                \* while it is consumed, after the capacity may legitimately have grown)
                ELSE IF exp.ret.k = "exc" /\ lb.it # "input" /\ lb.op # "swap2" /\
                        \E x \in exs : st[x].ex /\ ~IsRef(x) /\ obs[x].cap # st[x].cap
                     THEN "capacity changed by a call that failed with a limit error"
                ELSE ""
         owner == ValueOwner(lb, exp, r) \cup (IF \E x \in Parts(lb) : gh[x].reloc THEN {"C14"} ELSE {})
         \* ---- C02
         L2 == IF Len(ev.prims) > BatchAt THEN BatchLedger(objs, ev.prims) ELSE FoldLeft(ApplyPrim, LedObj0(objs), ev.prims)
         visIds == UNION {SeqToSet(obs[x].ids) : x \in exs}
         nVis == FoldLeft(LAMBDA a, x : a + (IF obs[x].ex THEN obs[x].size ELSE 0), 0, [i \in 1..K |-> i])
         c02Fail ==
           IF Cat = "TC" THEN ""
           ELSE IF L2.bad # <<>> THEN L2.bad[1][1]
           \* (a move operation that throws inevitably leaves moved-from elements behind: waived on that call only)
           ELSE IF ~thrownByMove /\ \E x \in exs : \E i \in 1..obs[x].size : obs[x].mv[i] # 0 THEN "moved-from element visible"
           ELSE IF Cardinality(visIds) # nVis THEN "same object visible twice (bitwise duplicate)"
           ELSE IF DOMAIN L2.objs # visIds
                THEN IF visIds \ DOMAIN L2.objs # {} THEN "visible element is not alive"
                     ELSE "element object leaked (alive but owned by no container)"
           ELSE IF Cat = "NTR" /\ \E x \in exs : \E i \in 1..obs[x].size :
                                     L2.objs[obs[x].ids[i]] # 0 /\ L2.objs[obs[x].ids[i]] # obs[x].toks[i]
                THEN "non relocatable element found at another address (moved by bytes)"
           ELSE ""
         objs2 == IF Cat = "TC" THEN <<>>
                  ELSE IF c02Fail = "" THEN L2.objs
                  ELSE \* resynchronise on what is visible so that one defect is reported once
                       LET pairs == UNION {{<<obs[x].ids[i], obs[x].toks[i]>> : i \in 1..obs[x].size} : x \in exs}
                       IN [id \in visIds |-> (CHOOSE p \in pairs : p[1] = id)[2]]
         \* ---- C06
         sizesOK == {n \in 0..(Max(Len(st[c].vals), IF c \in exs THEN obs[c].size ELSE 0) + 1) : TRUE}
         B2 == FoldLeft(LAMBDA L, a : ApplyAlloc(sizesOK, L, a), LedBlk0(blocks), ev.allocs)
         heapBufs == {obs[x].buf : x \in {y \in exs : ~obs[y].inl /\ obs[y].buf # 0}}
         c06Fail ==
           IF ~AllocInstrumented THEN ""
           ELSE IF B2.bad # <<>> THEN B2.bad[1][1]
           ELSE IF DOMAIN B2.blocks # heapBufs
                THEN IF DOMAIN B2.blocks \ heapBufs # {} THEN "block leaked (outstanding but owned by no container)"
                     ELSE "container uses a buffer that is not an outstanding block"
           ELSE ""
         blocks2 == IF c06Fail = "" \/ ~AllocInstrumented THEN B2.blocks
                    ELSE [t \in heapBufs |-> IF t \in DOMAIN B2.blocks THEN B2.blocks[t] ELSE 0]
         \* ---- C05
         nReq == NAllocReq(ev.allocs)
         fixedOnly == \A x \in Parts(lb) : Flav[x] = "fixed"
         allPristine == \A x \in Parts(lb) : /\ (st[x].ex => st[x].pri \/ Flav[x] = "fixed")
                                             /\ (exp.st[x].ex => exp.st[x].pri \/ Flav[x] = "fixed")
         c05Fail ==
           IF \E x \in exs : ~IsRef(x) /\ Flav[x] = "fixed" /\ (~obs[x].inl \/ obs[x].cap # NInl[x])
              THEN "FixedCapacityVector not inline / capacity differs from N"
           ELSE IF \E x \in exs : ~IsRef(x) /\ Flav[x] = "fixed" /\ st[x].ex /\ lb.op # "relocate" /\ obs[x].buf # gh[x].buf0
              THEN "begin() of a FixedCapacityVector changed"
           ELSE IF \E x \in exs : ~IsRef(x) /\ exp.st[x].pri /\ Flav[x] # "fixed" /\ ~faulted
                                  /\ (obs[x].cap # Cap0(x) \/ obs[x].inl # Inl0(x))
              THEN "pristine SmallVector: capacity() differs from N or elements not inside the object"
           ELSE IF (\A x \in Parts(lb) : ~IsRef(x)) /\ allPristine /\ nReq > 0
              THEN "allocator request although no participant ever exceeded N"
           ELSE IF (\A x \in Parts(lb) : ~IsRef(x)) /\ allPristine /\ r.k # "exc" /\ ev.gm > 0 /\ Cfg.countsGlobal
              THEN "dynamic memory requested although no participant ever exceeded N"
           ELSE ""
         \* ---- C07
         exempt == lb.op \in CapExempt \cup {"relocate"}
         fits == IF lb.op \in {"reserve", "reserveBig"} THEN lb.n <= st[c].cap
                 ELSE st[c].ex /\ exp.st[c].ex /\ Len(exp.st[c].vals) <= st[c].cap
         pfx == StablePrefix(st, lb)
         pre == last[c]
         stableIds == IF Cat = "TC" \/ ~pre.ex THEN {} ELSE {pre.ids[i] : i \in 1..Min(pfx, Len(pre.ids))}
         touched(ids) == \E i \in 1..Len(ev.prims) : ev.prims[i][2] \in ids
         touchedOrRead(ids) == \E i \in 1..Len(ev.prims) : ev.prims[i][2] \in ids \/ ev.prims[i][4] \in ids
         moveFromHeap == lb.op \in {"ctorMove", "assignMove"} /\ lb.c # lb.d /\ Flav[lb.d] # "fixed" /\ ~st[lb.d].inl
                         /\ last[lb.d].ex /\ last[lb.d].buf # 0
         swapHeaps == lb.op \in {"swap", "freeSwap"} /\ lb.c # lb.d /\ Flav[c] # "fixed" /\ ~st[c].inl /\ ~st[lb.d].inl
         c07Fail ==
           IF \E x \in exs : ~(obs[x].size <= obs[x].cap /\ obs[x].cap <= obs[x].maxsz) THEN "size <= capacity <= max_size violated"
           ELSE IF ~exempt /\ \E x \in exs : st[x].ex /\ obs[x].cap < st[x].cap THEN "capacity decreased"
           ELSE IF lb.op \in {"reserve", "reserveBig"} /\ r.k = "none" /\ obs[c].cap < lb.n THEN "capacity < n after reserve(n)"
           ELSE IF ~exempt /\ ~faulted /\ fits /\ r.k # "exc" /\ st[c].ex /\ c \in exs /\ ~IsRef(c) /\
                   (Len(ev.allocs) > 0 \/ obs[c].buf # pre.buf)
                THEN "reallocation although the resulting size fits the capacity"
           ELSE IF ~exempt /\ ~faulted /\ fits /\ r.k # "exc" /\ st[c].ex /\ c \in exs /\
                   \E i \in 1..Min(pfx, Min(Len(pre.toks), Len(obs[c].toks))) :
                      pre.toks[i] # obs[c].toks[i] \/ (Cat # "TC" /\ pre.ids[i] # obs[c].ids[i])
                THEN "element before the insertion / erasure point changed address or identity"
           ELSE IF ~exempt /\ ~faulted /\ fits /\ r.k # "exc" /\ st[c].ex /\ c \in exs /\ touched(stableIds)
                THEN "element before the insertion / erasure point was assigned, moved or destroyed"
           ELSE IF moveFromHeap /\ ~IsRef(c) /\ ~faulted /\
                   (obs[c].buf # last[lb.d].buf \/ obs[c].toks # last[lb.d].toks \/ obs[c].ids # last[lb.d].ids
                    \/ touchedOrRead(SeqToSet(last[lb.d].ids) \ {0}))
                THEN "move from a heap-backed vector did not hand over the buffer untouched"
           ELSE IF swapHeaps /\ ~IsRef(c) /\
                   (obs[c].buf # last[lb.d].buf \/ obs[lb.d].buf # pre.buf \/ obs[c].toks # last[lb.d].toks
                    \/ obs[lb.d].toks # pre.toks \/ Len(ev.prims) > 0)
                THEN "swap of two heap-backed vectors did not exchange the buffers untouched"
           ELSE ""
         \* ---- C18
         isAppend == lb.op \in AppendOps /\ r.k \in {"none", "val"}
         g0 == gh[c]
         run == IF isAppend THEN g0.appendRun + 1 ELSE 0
         rea == IF isAppend THEN g0.reallocRun + nReq ELSE 0
         nMoves == Cardinality({i \in 1..Len(ev.prims) : ev.prims[i][1] = "mctor"})
         rel == IF isAppend THEN g0.relocRun + nMoves ELSE 0
         start == IF isAppend THEN (IF g0.appendRun = 0 THEN Len(st[c].vals) ELSE g0.startSize) ELSE 0
         c18Fail ==
           IF IsRef(c) \/ Flav[c] = "fixed" \/ faulted THEN ""
           ELSE IF isAppend /\ obs[c].cap < obs[c].maxsz /\ rea > 2 * CeilLog2(run) + 4
                THEN "more than 2*ceil(log2 n)+4 reallocations while appending n elements"
           ELSE IF isAppend /\ Cat = "NTR" /\ obs[c].cap < obs[c].maxsz /\ rel > 4 * run + 2 * start + 16
                THEN "element relocations not linear in the number of appended elements"
           \* the capacity grows by the constant factor whenever a growing operation has to reallocate (not only push_back)
           ELSE IF lb.op \in GrowOps /\ r.k # "exc" /\ st[c].ex /\ obs[c].ex /\ obs[c].cap > st[c].cap /\
                   obs[c].cap < Min((3 * st[c].cap + 1) \div 2, obs[c].maxsz)
                THEN "growth step smaller than the constant factor 1.5"
           ELSE IF lb.op \in {"reserve", "reserveBig"} /\ r.k = "none" /\ lb.n > st[c].cap /\ AllocInstrumented /\ nReq # 1
                THEN "reserve(n) beyond the capacity did not use exactly one allocation"
           ELSE IF lb.op = "shrinkToFit" /\ r.k = "none" /\
                   ~(IF obs[c].size <= NInl[c] /\ Flav[c] = "small" THEN obs[c].cap = NInl[c] /\ obs[c].inl
                     ELSE obs[c].cap = obs[c].size)
                THEN "shrink_to_fit did not reduce the capacity to size() / to the inline N"
           ELSE ""
         \* ---- C20 (a): a const operation (observers, comparisons, being the source of a copy) leaves the representation
         \* of the container it reads - object bytes and element buffer - unchanged, and issues no allocator request
         \* for it; (the recording carries a hash of those bytes before and after the call)
         c20Fail ==
           IF "h0" \notin DOMAIN ev THEN ""
           ELSE IF (lb.op \in Observers \cup {"ctorCopy"} \/ (lb.op = "assignCopy" /\ lb.c # lb.d)) /\ ~faulted /\ ev.h0 # ev.h1
                THEN "a const operation changed the representation of the container it reads"
           ELSE IF lb.op \in Observers /\ Len(ev.allocs) > 0 THEN "a const operation used the allocator"
           ELSE ""
         \* ---- design drift (diagnostic only)
         drift == ~faulted /\ \E x \in exs : ~IsRef(x) /\ exp.st[x].ex /\ (obs[x].cap # exp.st[x].cap \/ obs[x].inl # exp.st[x].inl)
         \* ---- next state
         newPri(x) == IF faulted THEN (st[x].ex /\ st[x].pri /\ exp.st[x].ex /\ exp.st[x].pri) ELSE exp.st[x].pri
         st2 == [x \in Slots |-> IF obs[x].ex
                                 THEN [ex |-> TRUE, vals |-> obs[x].vals, cap |-> obs[x].cap, inl |-> obs[x].inl, pri |-> newPri(x)]
                                 ELSE Dead]
         gh2 == [x \in Slots |->
                   IF ~obs[x].ex THEN Gh0
                   ELSE LET g == gh[x]
                            b0 == IF ~st[x].ex \/ (x = c /\ lb.op = "relocate") THEN obs[x].buf ELSE g.buf0
                            rl == (st[x].ex /\ g.reloc) \/ (x = c /\ lb.op = "relocate")
                        IN IF x = c
                           THEN [buf0 |-> b0, appendRun |-> run, reallocRun |-> rea, relocRun |-> rel, startSize |-> start, reloc |-> rl]
                           ELSE IF x = lb.d /\ lb.op \notin Observers
                           THEN [buf0 |-> b0, appendRun |-> 0, reallocRun |-> 0, relocRun |-> 0, startSize |-> 0, reloc |-> rl]
                           ELSE [g EXCEPT !.buf0 = b0, !.reloc = rl]]
         v1 == IF valueFail # "" THEN AddViol(viol, owner, l, valueFail) ELSE viol
         \* (C08: a call refused with a limit error leaks no element and no block either)
         limitErr == IF ~faulted /\ exp.ret.k = "exc" THEN {"C08"} ELSE {}
         v2 == IF c02Fail # "" THEN AddViol(v1, {"C02"} \cup limitErr \cup (IF faulted THEN {"C09"} ELSE {}) \cup (IF lb.op = "swap2" THEN {"C13"} ELSE {})
                                                  \cup (IF \E x \in Parts(lb) : gh[x].reloc THEN {"C14"} ELSE {}), l, c02Fail) ELSE v1
         v3 == IF c06Fail # "" THEN AddViol(v2, {"C06"} \cup limitErr \cup (IF faulted THEN {"C09"} ELSE {}) \cup (IF lb.op = "swap2" THEN {"C13"} ELSE {}), l, c06Fail) ELSE v2
         v4 == IF c05Fail # "" THEN AddViol(v3, {"C05"}, l, c05Fail) ELSE v3
         v5 == IF c07Fail # "" THEN AddViol(v4, {"C07"} \cup (IF lb.op = "swap2" THEN {"C13"} ELSE {}), l, c07Fail) ELSE v4
         v6 == IF c18Fail # "" THEN AddViol(v5, {"C18"}, l, c18Fail) ELSE v5
         v7 == IF c20Fail # "" THEN AddViol(v6, {"C20"}, l, c20Fail) ELSE v6
     IN
     /\ viol' = v7
     /\ st' = st2
     /\ last' = [x \in Slots |-> IF obs[x].ex THEN obs[x] ELSE DeadObs]
     /\ objs' = objs2
     /\ blocks' = blocks2
     /\ gh' = gh2
     /\ stats' = [stats EXCEPT !.ops = @ + 1,
                               !.drift = @ + (IF drift THEN 1 ELSE 0),
                               !.driftAt = IF drift /\ Len(@) < 5 THEN Append(@, l) ELSE @,
                               !.faults = @ + (IF faulted THEN 1 ELSE 0),
                               !.limitExc = @ + (IF exp.ret.k = "exc" /\ ~faulted THEN 1 ELSE 0),
                               !.alias = @ + (IF lb.src > 0 THEN 1 ELSE 0),
                               !.nullDealloc = @ + B2.nullDealloc,
                               !.prims = @ + Len(ev.prims),
                               !.allocEvents = @ + Len(ev.allocs),
                               !.stable = @ + (IF ~exempt /\ ~faulted /\ fits /\ st[c].ex /\ c \in exs /\ pfx > 0 THEN 1 ELSE 0),
                               !.handover = @ + (IF moveFromHeap \/ swapHeaps THEN 1 ELSE 0),
                               !.pristineOps = @ + (IF allPristine THEN 1 ELSE 0),
                               !.constOps = @ + (IF "h0" \in DOMAIN ev /\ (lb.op \in Observers \cup {"ctorCopy", "assignCopy"}) THEN 1 ELSE 0)]
     /\ l' = l + 1

\* end of an execution: every container has been destroyed (explicit destroy events precede the marker)
TReset ==
  /\ l <= Len(TraceLog)
  /\ TraceLog[l].e = "reset"
  /\ viol' = (LET v1 == IF Cat # "TC" /\ objs # <<>> THEN AddViol(viol, {"C02"}, l, "element objects alive after all containers are gone") ELSE viol
              IN IF AllocInstrumented /\ blocks # <<>> THEN AddViol(v1, {"C06"}, l, "blocks outstanding after all containers are gone") ELSE v1)
  /\ st' = InitState
  /\ last' = [c \in Slots |-> DeadObs]
  /\ objs' = <<>>
  /\ blocks' = <<>>
  /\ gh' = [c \in Slots |-> Gh0]
  /\ stats' = [stats EXCEPT !.execs = @ + 1]
  /\ l' = l + 1

\* the execution was cut short by a crash (already recorded): forget its state
TAbort ==
  /\ l <= Len(TraceLog)
  /\ TraceLog[l].e = "abort"
  /\ st' = InitState
  /\ last' = [c \in Slots |-> DeadObs]
  /\ objs' = <<>>
  /\ blocks' = <<>>
  /\ gh' = [c \in Slots |-> Gh0]
  /\ stats' = [stats EXCEPT !.execs = @ + 1]
  /\ UNCHANGED viol
  /\ l' = l + 1

TNext == TOp \/ TReset \/ TAbort
TSpec == TInit /\ [][TNext]_vars

\* printed once, at the end: the verdict the driver reads
Verdict == [consumed |-> TLCGet("stats").diameter, lines |-> Len(TraceLog), name |-> Cfg.name]
TraceAccepted ==
  /\ PrintT(<<"VERDICT", ToJson(Verdict)>>)
  /\ TLCGet("stats").diameter = Len(TraceLog)

\* the last state carries the violations and the statistics; it is printed by an invariant that only fires there
AtEnd == l = Len(TraceLog) + 1
Report == AtEnd => PrintT(<<"REPORT", ToJson([viol |-> viol, stats |-> stats])>>)
=============================================================================
