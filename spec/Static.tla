------------------------------- MODULE Static -------------------------------
(* C17: the static contract of the library as pure functions of (element size, alignment, category, N).            *)
(* TLC evaluates them over a matrix and prints one row per instance; a generator turns each row into static_asserts *)
(* on real instantiations, which the compiler decides under every language standard.                                 *)
EXTENDS Naturals, Integers, TLC, Json

\* element categories:
\*  "trivial"   trivially copyable, no declaration                      -> relocatable
\*  "optout"    trivially copyable, declares trivially_relocatable = std::false_type -> not relocatable
\*  "tr"        not trivially copyable, declares std::true_type        -> relocatable
\*  "ntr"       not trivially copyable, no declaration, noexcept moves -> not relocatable
\*  "throwmove" as "ntr" but its move operations may throw
\*  "throwasg"  as "ntr" but its move ASSIGNMENT may throw (noexcept move constructor)
\*  "ntrtd"     as "ntr" but trivially destructible (no destructor declared)
SCats == {"trivial", "optout", "tr", "ntr", "throwmove", "throwasg", "ntrtd"}

IsTR(cat) == cat \in {"trivial", "tr"}
TrivDtor(cat) == cat \in {"trivial", "optout", "ntrtd"}
NxMoveCtor(cat) == cat # "throwmove"
NxMoveAsg(cat) == cat \notin {"throwmove", "throwasg"}
PtrSize == 8

\* smallest unsigned type able to hold N (bytes)
SizeTypeBytes(N) == IF N <= 255 THEN 1 ELSE IF N <= 65535 THEN 2 ELSE 4     \* (N below 2^31 in every model: TLC integers are 32 bit)
MaxOf(a, b) == IF a > b THEN a ELSE b

Row(size, align, cat, N) ==
  [size |-> size, align |-> align, cat |-> cat, n |-> N,
   tr |-> IsTR(cat),
   \* FixedCapacityVector<T,N>: trivially destructible exactly when T is; size_type the smallest unsigned type holding N
   fcvTrivDtor |-> TrivDtor(cat),
   fcvSizeTypeBytes |-> SizeTypeBytes(N),
   \* SmallVector<T,N> is no larger than amc::vector<T> when N elements fit in a pointer, else adds at most the N slots
   \* plus alignment padding
   svFitsPtr |-> N * size <= PtrSize,
   svExtra |-> N * size + MaxOf(align, PtrSize),
   \* noexcept of move construction / move assignment / swap (N >= 1; amc::vector (N = 0): always noexcept)
   nxMoveCtor |-> IsTR(cat) \/ NxMoveCtor(cat),
   nxMoveAsg |-> IsTR(cat) \/ (NxMoveCtor(cat) /\ NxMoveAsg(cat)),
   nxSwap |-> NxMoveCtor(cat) /\ NxMoveAsg(cat),       \* std::swap of the elements: both moves
   \* container relocatability = conjunction of the parts
   vecTR |-> TRUE, svTR |-> IsTR(cat), fcvTR |-> IsTR(cat),
   \* pair<T, U> with U of category "tr" / "ntr"
   pairWithTR |-> IsTR(cat), pairWithNTR |-> FALSE]

CONSTANTS Sizes, Aligns, Ns
VARIABLE row
Rows == {Row(p[1], p[2], c, n) : p \in {q \in Sizes \X Aligns : q[1] % q[2] = 0}, c \in SCats, n \in Ns}
Init == row \in Rows
Next == UNCHANGED row
Spec == Init /\ [][Next]_row
Emit == PrintT(<<"ROW", ToJson(row)>>)
=============================================================================
