SPECIFICATION TSpec
CONSTANTS
 K <- TK
 Flav <- TFlav
 NInl <- TNInl
 MaxSz <- TMaxSz
 TypeId <- TTypeId
 AllocId <- TAllocId
INVARIANT Report
POSTCONDITION TraceAccepted
CHECK_DEADLOCK FALSE
