------------------------------- MODULE MCSets -------------------------------
(* Model-checking wrapper for Sets: explores every reachable pool state of a small key domain, every legal label,   *)
(* checks the invariants and exports the transition relation for the covering walks.                                 *)
EXTENDS Sets, TLC, Json

CONSTANTS Keys, Cms, Its, RLens, MaxLen, Ops

VARIABLES st, lbl, ret
vars == <<st, lbl, ret>>

Init == /\ st = SInit
        /\ lbl = SLbl("init", 0, 0, 0, 0, 0, 0, "", <<>>)
        /\ ret = SNoRet

Next == \E lb \in SLabelsOf(st, Ops, Keys, Cms, Its, RLens, MaxLen) :
          LET r == SStep(st, lb) IN
          /\ st' = r.st
          /\ lbl' = lb
          /\ ret' = r.ret
Spec == Init /\ [][Next]_vars

NextRandom ==
  \E c \in {RandomElement(SSlots)} :
  \E o \in {RandomElement(IF st.s[c].ex
                           THEN (Ops \ ({"destroy"} \cup SCtors)) \cup (IF RandomElement(1..15) = 1 THEN {"destroy"} \cap Ops ELSE {})
                           ELSE Ops \cap SCtors)} :
  LET S == {lb \in SOpLabels(st, c, o, Keys, Cms, Its, RLens, MaxLen) : lb.op \in {"extractKey", "extractPos"} => ~st.node.has} IN
  IF S = {} THEN UNCHANGED vars
  ELSE \E lb \in {RandomElement(S)} :
         LET r == SStep(st, lb) IN
         /\ st' = r.st
         /\ lbl' = lb
         /\ ret' = r.ret
SpecRandom == Init /\ [][NextRandom]_vars

View == st
Export == PrintT(<<"T", ToJson([f |-> st, l |-> lbl', r |-> ret', t |-> st'])>>)
ExportSim == (lbl' # lbl \/ st' # st) => Export

Inv == /\ SortedStrict(st)
       /\ \A c \in SSlots : Len(st.s[c].elems) <= MaxLen

\* C12 / C19 on the design of FlatSet::insert_hint: for every sorted content over Keys, every comparator state, every
\* hint position and every value, hinted insertion equals plain insertion, returns the equivalent element, and a
\* correct hint costs at most 4 comparator calls
HintTheorem ==
  \A cm \in Cms : \A S \in SUBSET Keys :
    LET cmp == CmpOf(cm)
        reps == {v \in S : \A w \in S : Equiv(cmp, v, w) => v <= w}     \* one representative per class
        E == SetToSortSeq(reps, LAMBDA a, b : Lt(cmp, a, b))
    IN \A h \in 1..Len(E) + 1 : \A v \in Keys : HintOK(cmp, E, h, v)
HintInv == HintTheorem

\* C03 on the design of FlatSet::merge: for every destination / source content over Keys and every pair of comparator
\* states, mergeUnordered gives the std::set result (destination and what stays in the source); for a stateless
\* comparator (both operands ordered alike, no coarse classes) the single pass algorithm does too
MergeTheorem ==
  \A cmD \in Cms : \A cmS \in Cms : \A SD \in SUBSET Keys : \A SS \in SUBSET Keys :
    LET cd == CmpOf(cmD)
        A == SortedReps(cd, SD)
        B == SortedReps(CmpOf(cmS), SS)
        want == MergeStd(cd, A, B)
    IN /\ DMergeUnordered(cd, A, B) = want
       /\ (cmD = cmS /\ cmD \in {0, 1} => DMergeOrdered(cd, A, B, 1, 1) = want)
MergeInv == MergeTheorem
\* what the pinned tree assumed (F13): the single pass algorithm for operands ordered by different comparator objects
MergeOrderedWrong ==
  \A cmD \in Cms : \A cmS \in Cms : \A SD \in SUBSET Keys : \A SS \in SUBSET Keys :
    LET cd == CmpOf(cmD)
        A == SortedReps(cd, SD)
        B == SortedReps(CmpOf(cmS), SS)
    IN DMergeOrdered(cd, A, B, 1, 1) = MergeStd(cd, A, B)
MergeF13Inv == MergeOrderedWrong
=============================================================================
