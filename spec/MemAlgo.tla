------------------------------- MODULE MemAlgo -------------------------------
(* C15: the memory algorithms of amc (memory.hpp) against the meaning of the C++17/20 standard algorithms,         *)
(* relocate = move-construct then destroy the source.  One label = one call on fresh buffers:                     *)
(*   a    algorithm                     n   number of elements (0..)                                               *)
(*   sit  kind of the source iterator   dit kind of the destination iterator                                       *)
(*   cat  element category "TC" | "TR" | "NTR" | "NTRM" (NTRM: move operations may throw)                          *)
(*   k    the k-th throwing-capable construction throws (0: none)                                                  *)
(* Source slots 1..n hold live elements with values 1..n; destination slots 1..n+1 are raw.                        *)
(* MemExpect gives, per slot, "live" (with its value), "moved" (alive, moved-from), "raw" (never constructed or     *)
(* destroyed again) or "gone" (the object was relocated away: destroyed, or abandoned after a byte copy).           *)
EXTENDS SeqOps

\* "construct_at_args": construct_at(p, 1, 2) on a type with T(int, int) AND T(std::initializer_list<int>): the standard
\* algorithm direct-initialises with parentheses (value 12), list-initialisation would pick the other constructor
Algos == {"construct_at", "construct_at_args", "destroy_at", "destroy", "destroy_n", "uninitialized_copy", "uninitialized_copy_n",
          "uninitialized_move", "uninitialized_move_n", "uninitialized_default_construct", "uninitialized_default_construct_n",
          "uninitialized_value_construct", "uninitialized_value_construct_n", "uninitialized_relocate",
          "uninitialized_relocate_n", "relocate_at"}
CopyAlgos == {"uninitialized_copy", "uninitialized_copy_n"}
MoveAlgos == {"uninitialized_move", "uninitialized_move_n"}
RelocAlgos == {"uninitialized_relocate", "uninitialized_relocate_n"}
CtorAlgos == {"uninitialized_default_construct", "uninitialized_default_construct_n", "uninitialized_value_construct",
              "uninitialized_value_construct_n"}
SrcKinds == {"ptr", "ra", "bidir", "fwd", "move", "rev"}     \* rev: std::reverse_iterator<T*>: random access, NOT contiguous
DstKinds == {"ptr", "ra"}
\* "TDC": trivially default constructible but NOT trivially copyable (user-provided copy assignment): like "TC" it has no
\* observable construction and cannot throw, but running its assignment operator on raw storage is observable
Cats == {"TC", "TDC", "TR", "NTR", "NTRM"}
Plain(cat) == cat \in {"TC", "TDC"}

MLbl(a, n, sit, dit, cat, k) == [a |-> a, n |-> n, sit |-> sit, dit |-> dit, cat |-> cat, k |-> k]

Slot(s, v) == [s |-> s, v |-> v]
Live(v) == Slot("live", v)
Raw == Slot("raw", 0)
Gone == Slot("gone", 0)
MovedS(v) == Slot("moved", v)

\* does the algorithm move (rather than copy) from its source: move algorithms, relocation, or a copy through move_iterator
Moves(lb) == lb.a \in MoveAlgos \cup RelocAlgos \cup {"relocate_at"} \/ (lb.a \in CopyAlgos /\ lb.sit = "move")
\* can the k-th element construction of this call throw at all
CanThrow(lb) ==
  /\ ~Plain(lb.cat)
  /\ \/ lb.a \in CtorAlgos \cup {"construct_at"}
     \/ (lb.a \in CopyAlgos /\ lb.sit # "move")
     \/ (Moves(lb) /\ lb.cat = "NTRM")
Throws(lb) == CanThrow(lb) /\ lb.k >= 1 /\ lb.k <= (IF lb.a \in {"construct_at", "relocate_at"} THEN 1 ELSE lb.n)

\* state of a source element after having been moved from: a trivially copyable one is simply copied
AfterMove(lb, v) == IF Plain(lb.cat) THEN Live(v) ELSE MovedS(v)

MemExpect(lb) ==
  LET n == lb.n
      src0 == [i \in 1..n |-> Live(i)]
      dst0 == [i \in 1..n + 1 |-> Raw]
      thr == Throws(lb)
      \* the i-th element read comes from source slot Ord(i); slot j is read at step Pos(j)
      Ord(i) == IF lb.sit = "rev" THEN n + 1 - i ELSE i
      Pos(j) == IF lb.sit = "rev" THEN n + 1 - j ELSE j
      Res(src, dst, ret, ret2) == [src |-> src, dst |-> dst, ret |-> ret, ret2 |-> ret2, exc |-> thr]
  IN
  CASE lb.a = "construct_at_args" -> Res(src0, [dst0 EXCEPT ![1] = Live(12)], 0, 0)
    [] lb.a = "construct_at" ->
         \* constructs a copy of source element 1 at destination slot 1 (n >= 1)
         IF thr THEN Res(src0, dst0, 0, 0) ELSE Res(src0, [dst0 EXCEPT ![1] = Live(1)], 0, 0)
    [] lb.a = "destroy_at" -> Res([src0 EXCEPT ![1] = Gone], dst0, 0, 0)
    [] lb.a = "destroy"    -> Res([i \in 1..n |-> Gone], dst0, 0, 0)
    [] lb.a = "destroy_n"  -> Res([i \in 1..n |-> Gone], dst0, n, 0)
    [] lb.a \in CopyAlgos \cup MoveAlgos ->
         IF thr
         THEN \* every object created is destroyed again; sources already moved from stay alive (moved-from)
              Res([j \in 1..n |-> IF Moves(lb) /\ Pos(j) < lb.k THEN AfterMove(lb, j) ELSE Live(j)], dst0, 0, 0)
         ELSE Res([j \in 1..n |-> IF Moves(lb) THEN AfterMove(lb, j) ELSE Live(j)],
                  [i \in 1..n + 1 |-> IF i <= n THEN Live(Ord(i)) ELSE Raw], n, n)
    [] lb.a \in CtorAlgos ->
         IF thr THEN Res(src0, dst0, 0, 0)
         ELSE Res(src0, [i \in 1..n + 1 |-> IF i <= n THEN Live(0) ELSE Raw], n, 0)
    [] lb.a \in RelocAlgos ->
         IF thr
         THEN \* "the sources of a relocate stay alive"
              Res([j \in 1..n |-> IF Pos(j) < lb.k THEN AfterMove(lb, j) ELSE Live(j)], dst0, 0, 0)
         ELSE Res([j \in 1..n |-> Gone], [i \in 1..n + 1 |-> IF i <= n THEN Live(Ord(i)) ELSE Raw], n, n)
    [] lb.a = "relocate_at" ->
         IF thr THEN Res(src0, dst0, 0, 0)
         ELSE Res([src0 EXCEPT ![1] = Gone], [dst0 EXCEPT ![1] = Live(1)], 0, 0)

\* the labels of a model
MemLabels(MaxN) ==
  {lb \in {MLbl(a, n, sit, dit, cat, k) : a \in Algos, n \in 0..MaxN, sit \in SrcKinds, dit \in DstKinds, cat \in Cats, k \in 0..MaxN} :
     /\ (lb.a \in {"construct_at", "destroy_at", "relocate_at"} => lb.n = 1 /\ lb.sit = "ptr" /\ lb.dit = "ptr" /\ lb.k <= 1)
     /\ (lb.a = "construct_at_args" => lb.n = 1 /\ lb.sit = "ptr" /\ lb.dit = "ptr" /\ lb.k = 0 /\ lb.cat = "TC")
     /\ (lb.a \in {"destroy", "destroy_n"} => lb.dit = "ptr" /\ lb.k = 0 /\ lb.sit # "move")
     /\ (lb.a \in CtorAlgos => lb.sit = "ptr")
     /\ (lb.a \in MoveAlgos \cup RelocAlgos => lb.sit # "move")
     /\ lb.k <= lb.n
     /\ (lb.k > 0 => CanThrow(lb))}
=============================================================================
