------------------------------- MODULE Readers -------------------------------
(* C20 (b): T reader threads perform const operations (modelled as sequences of atomic reads) on ONE shared          *)
(* container while a writer mutates a DIFFERENT container.  TLC explores every interleaving and checks that what    *)
(* each reader obtains does not depend on the schedule: it is what a sequential execution on the (unchanged)        *)
(* shared state gives.  The model states the assumption the implementation has to honour: a const operation only    *)
(* READS the representation of the container (C20 (a) checks exactly that on every recorded const call).            *)
EXTENDS Naturals, Sequences, FiniteSets

CONSTANTS Shared,      \* the element sequence of the shared container
          NReaders,    \* number of reader threads
          WriterSteps  \* number of push_back the writer performs on its own container

VARIABLES pc,      \* reader -> index of the next element it will read (a const walk begin()..end())
          got,     \* reader -> what it has read so far
          other    \* the writer's own container
vars == <<pc, got, other>>
Rd == 1..NReaders

Init == /\ pc = [r \in Rd |-> 1]
        /\ got = [r \in Rd |-> <<>>]
        /\ other = <<>>

Read(r) == /\ pc[r] <= Len(Shared)
           /\ got' = [got EXCEPT ![r] = Append(@, Shared[pc[r]])]
           /\ pc' = [pc EXCEPT ![r] = @ + 1]
           /\ UNCHANGED other
Write == /\ Len(other) < WriterSteps
         /\ other' = Append(other, Len(other))
         /\ UNCHANGED <<pc, got>>
Next == (\E r \in Rd : Read(r)) \/ Write
Spec == Init /\ [][Next]_vars

\* constants of the checked instance
MCShared == <<3, 1, 2>>

\* schedule independence: whatever the interleaving, a reader sees a prefix of the shared sequence, and all of it at the end
PrefixInv == \A r \in Rd : got[r] = SubSeq(Shared, 1, Len(got[r]))
DoneInv == (\A r \in Rd : pc[r] > Len(Shared)) => \A r \in Rd : got[r] = Shared
=============================================================================
