--------------------------------- MODULE Sets ---------------------------------
(* Specification of the two set containers of amc (FlatSet: a sorted vector; SmallSet<T,N>: an unsorted inline      *)
(* vector of at most N elements that turns into a backing set when it grows beyond N and silently back when that    *)
(* set is drained) as ONE state machine over a pool of K sets, whose meaning is std::set's.                          *)
(*                                                                                                                  *)
(* State of a slot: [ex, elems, cmp, pri]                                                                           *)
(*   elems : the elements in iteration order of std::set, i.e. strictly increasing for the slot's comparator        *)
(*   cmp   : the STATE of the comparator object the set was constructed with: [desc, mod]                           *)
(*           Lt(cmp, a, b) == a \div mod < b \div mod  (reversed when desc); mod = 2 gives coarse equivalence       *)
(*           classes {0,1}, {2,3}, ...; all ordering / equivalence decisions must use this object (F11, F13, F16)   *)
(*   pri   : C05 ghost of a SmallSet: it has never held more than N elements                                        *)
(*   large : DESIGN state of a SmallSet: its elements are in the backing set (iteration in comparator order); while *)
(*           it is not large they sit in the inline vector, in INSERTION order - elems is always the iteration      *)
(*           order, so that positions (iterators) mean the same thing in the specification and in the code.         *)
(*           The contract compares a SmallSet's elements as a set; disagreement on the order is design drift.       *)
(* plus one pool-wide node handle  node = [has, v]  (extract / insert(node)).                                       *)
EXTENDS SeqOps, SequencesExt

CONSTANTS KS,        \* number of slots
          SFlav,     \* slot -> "flat" | "small" | "std"   (std: the reference implementation std::set)
          SN,        \* slot -> N of a SmallSet (0 otherwise)
          STypeId,   \* slot -> identifier of the C++ type
          SCmpType   \* slot -> identifier of the comparator TYPE (merge<C2> between different types)

SSlots == 1..KS

CmpOf(cm) == [desc |-> cm \in {1, 3}, mod |-> IF cm >= 2 THEN 2 ELSE 1]    \* comparator state of a label
KeyOf(cmp, v) == v \div cmp.mod
Lt(cmp, a, b) == IF cmp.desc THEN KeyOf(cmp, b) < KeyOf(cmp, a) ELSE KeyOf(cmp, a) < KeyOf(cmp, b)
Equiv(cmp, a, b) == KeyOf(cmp, a) = KeyOf(cmp, b)

\* coarse heterogeneous key (class c of width w) against element e: equivalent to every e with KeyOf(e) \div w = c
\* (the label carries c in v and w in n; n = 0 stands for the width 2)
KW(lb) == IF lb.n = 0 THEN 2 ELSE lb.n
KClass(cmp, e, w) == KeyOf(cmp, e) \div w
KMatch(cmp, e, c, w) == KClass(cmp, e, w) = c
KLt(cmp, e, c, w) == IF cmp.desc THEN c < KClass(cmp, e, w) ELSE KClass(cmp, e, w) < c        \* element orders before the key
KGt(cmp, e, c, w) == IF cmp.desc THEN KClass(cmp, e, w) < c ELSE c < KClass(cmp, e, w)        \* key orders before the element

SDead == [ex |-> FALSE, elems |-> <<>>, cmp |-> CmpOf(0), pri |-> FALSE, large |-> FALSE]
SFresh(cm) == [ex |-> TRUE, elems |-> <<>>, cmp |-> CmpOf(cm), pri |-> TRUE, large |-> FALSE]
NoNode == [has |-> FALSE, v |-> 0, t |-> 0]      \* t: type of the set the node was extracted from
SInit == [s |-> [c \in SSlots |-> SDead], node |-> NoNode]

SLbl(op, c, d, v, h, n, cm, it, vs) ==
  [op |-> op, c |-> c, d |-> d, v |-> v, h |-> h, n |-> n, cm |-> cm, it |-> it, vs |-> vs, k |-> 0]

\* return values: k = "none" | "ins" (position + inserted flag) | "it" (position) | "val" | "bool" | "run" | "exc"
\* a position is the element it designates, or END
END == 0 - 1
SRet(k, i, b, s) == [k |-> k, i |-> i, b |-> b, s |-> s]
SNoRet == SRet("none", 0, 0, <<>>)
InsR(pos, inserted) == SRet("ins", pos, IF inserted THEN 1 ELSE 0, <<>>)
ItR(pos) == SRet("it", pos, 0, <<>>)
SValR(v) == SRet("val", v, 0, <<>>)
SBoolR(b) == SRet("bool", IF b THEN 1 ELSE 0, 0, <<>>)
RunR(run) == SRet("run", 0, 0, run)

-----------------------------------------------------------------------------
(* std::set meaning *)
Has(x, v) == \E i \in 1..Len(x.elems) : Equiv(x.cmp, x.elems[i], v)
RepOf(x, v) == x.elems[CHOOSE i \in 1..Len(x.elems) : Equiv(x.cmp, x.elems[i], v)]   \* the element equivalent to v
\* index (1-based) of the first element not less than v / greater than v; Len+1 if none
LbIdx(x, v) == Cardinality({i \in 1..Len(x.elems) : Lt(x.cmp, x.elems[i], v)}) + 1
UbIdx(x, v) == Cardinality({i \in 1..Len(x.elems) : ~Lt(x.cmp, v, x.elems[i])}) + 1
At(x, i) == IF i >= 1 /\ i <= Len(x.elems) THEN x.elems[i] ELSE END
InsertSorted(x, v) == IF Has(x, v) THEN x ELSE [x EXCEPT !.elems = InsertSeq(@, LbIdx(x, v) - 1, <<v>>)]
SortedOf(x) == SortSeq(x.elems, LAMBDA a, b : Lt(x.cmp, a, b))
\* SmallSet: elements move from the inline vector to the backing set when an (N+1)-th one arrives, and the set is
\* "small" again as soon as the backing set is empty
Grow(x) == [x EXCEPT !.elems = SortedOf(x), !.large = (x.elems # <<>>)]
Norm(c, x) == IF SFlav[c] = "small" /\ x.large /\ x.elems = <<>> THEN [x EXCEPT !.large = FALSE] ELSE x
InsertOneC(c, x, v) ==
  IF SFlav[c] # "small" \/ x.large THEN InsertSorted(x, v)
  ELSE IF Has(x, v) THEN x
  ELSE IF Len(x.elems) < SN[c] THEN [x EXCEPT !.elems = Append(@, v)]
  ELSE [InsertSorted(Grow(x), v) EXCEPT !.large = TRUE]
InsertAllC(c, x, vs) == FoldLeft(LAMBDA acc, v : InsertOneC(c, acc, v), x, vs)
\* plain std::set meaning (used for the theorem on hints)
InsertOne(x, v) == InsertSorted(x, v)
RemoveIf(c, x, P(_)) == Norm(c, [x EXCEPT !.elems = SelectSeq(@, LAMBDA e : ~P(e))])
EraseKey(c, x, v) == RemoveIf(c, x, LAMBDA e : Equiv(x.cmp, e, v))
SetPri(c, old, x) == [x EXCEPT !.pri = old /\ Len(x.elems) <= SN[c]]

SR(st, ret) == [st |-> st, ret |-> ret]
SUpd(st, c, x) == [st EXCEPT !.s[c] = x]

SStep(st, lb) ==
  LET c == lb.c
      d == lb.d
      x == st.s[c]
      n == Len(x.elems)
  IN
  CASE lb.op = "ctorDefault" -> SR(SUpd(st, c, SFresh(lb.cm)), SNoRet)
    [] lb.op \in {"ctorRange", "ctorIlist", "ctorFromVec"} ->
         SR(SUpd(st, c, SetPri(c, TRUE, InsertAllC(c, SFresh(lb.cm), lb.vs))), SNoRet)
    \* (C05 speaks of copies / moves / swaps / merges "with other inline sets": a copy of a set that has been large is not pristine)
    [] lb.op = "ctorCopy" -> SR(SUpd(st, c, [st.s[d] EXCEPT !.pri = st.s[d].pri /\ Len(st.s[d].elems) <= SN[c]]), SNoRet)
    [] lb.op = "ctorMove" ->
         SR([st EXCEPT !.s[c] = st.s[d], !.s[d] = [st.s[d] EXCEPT !.elems = <<>>, !.pri = TRUE, !.large = FALSE]], SNoRet)
    [] lb.op = "destroy"  -> SR(SUpd(st, c, SDead), SNoRet)
    [] lb.op \in {"insert", "insertRv", "emplace"} ->
         SR(SUpd(st, c, SetPri(c, x.pri, InsertOneC(c, x, lb.v))), InsR(IF Has(x, lb.v) THEN RepOf(x, lb.v) ELSE lb.v, ~Has(x, lb.v)))
    \* a hint is only a hint (C12): same set as plain insertion, iterator to the element equivalent to the value
    [] lb.op \in {"insertHint", "insertHintRv", "emplaceHint"} ->
         SR(SUpd(st, c, SetPri(c, x.pri, InsertOneC(c, x, lb.v))), ItR(IF Has(x, lb.v) THEN RepOf(x, lb.v) ELSE lb.v))
    [] lb.op \in {"insertRange", "insertIlist", "assignIlist", "assignVec"} ->
         LET base == IF lb.op \in {"assignIlist", "assignVec"} THEN [x EXCEPT !.elems = <<>>, !.large = FALSE] ELSE x
         IN SR(SUpd(st, c, SetPri(c, x.pri, InsertAllC(c, base, lb.vs))), SNoRet)
    [] lb.op = "eraseKey" -> SR(SUpd(st, c, EraseKey(c, x, lb.v)), SValR(IF Has(x, lb.v) THEN 1 ELSE 0))
    \* positions are positions of the iteration; the returned iterator designates the element that followed (or END)
    [] lb.op = "erasePos" -> SR(SUpd(st, c, Norm(c, [x EXCEPT !.elems = EraseRange(@, lb.h, lb.h + 1)])), ItR(At(x, lb.h + 2)))
    [] lb.op = "eraseRange" -> SR(SUpd(st, c, Norm(c, [x EXCEPT !.elems = EraseRange(@, lb.h, lb.n)])), ItR(At(x, lb.n + 1)))
    \* the erase-while-iterating loop (C11): removes every element with v % 2 = n, visits every other one exactly once
    [] lb.op = "eraseLoop" ->
         SR(SUpd(st, c, RemoveIf(c, x, LAMBDA e : e % 2 = lb.n)),
            SValR(Cardinality({i \in 1..n : x.elems[i] % 2 # lb.n})))
    \* erase_if (C++20): removes every element with v % 2 = n, returns how many
    [] lb.op = "eraseIf" ->
         SR(SUpd(st, c, RemoveIf(c, x, LAMBDA e : e % 2 = lb.n)), SValR(Cardinality({i \in 1..n : x.elems[i] % 2 = lb.n})))
    [] lb.op = "clear"    -> SR(SUpd(st, c, [x EXCEPT !.elems = <<>>, !.large = FALSE]), SNoRet)
    \* the sorted vector interface of FlatSet (AMC_NONSTD_FEATURES): positions are positions of the iteration
    [] lb.op = "front"    -> SR(st, SValR(x.elems[1]))
    [] lb.op = "back"     -> SR(st, SValR(x.elems[n]))
    [] lb.op = "index"    -> SR(st, SValR(x.elems[lb.h + 1]))
    [] lb.op = "at"       -> IF lb.h >= n THEN SR(st, SRet("exc", 0, 0, <<>>)) ELSE SR(st, SValR(x.elems[lb.h + 1]))
    [] lb.op \in {"reserve", "shrinkToFit"} -> SR(st, SNoRet)      \* capacity is not part of the meaning of a set
    [] lb.op \in {"find", "findK"}       -> SR(st, ItR(IF Has(x, lb.v) THEN RepOf(x, lb.v) ELSE END))
    [] lb.op \in {"contains", "containsK"} -> SR(st, SBoolR(Has(x, lb.v)))
    [] lb.op \in {"count", "countK"}     -> SR(st, SValR(IF Has(x, lb.v) THEN 1 ELSE 0))
    [] lb.op \in {"lowerBound", "lowerBoundK"} -> SR(st, ItR(At(x, LbIdx(x, lb.v))))
    [] lb.op \in {"upperBound", "upperBoundK"} -> SR(st, ItR(At(x, UbIdx(x, lb.v))))
    \* heterogeneous key of a COARSER granularity than the comparator (a transparent comparator may order keys that are
    \* equivalent to several elements): class c matches every element e with KeyOf(e) \div 2 = c
    [] lb.op = "lowerBoundC" -> SR(st, ItR(At(x, Cardinality({i \in 1..n : KLt(x.cmp, x.elems[i], lb.v, KW(lb))}) + 1)))
    [] lb.op = "upperBoundC" -> SR(st, ItR(At(x, Cardinality({i \in 1..n : ~KGt(x.cmp, x.elems[i], lb.v, KW(lb))}) + 1)))
    [] lb.op = "countC"      -> SR(st, SValR(Cardinality({i \in 1..n : KMatch(x.cmp, x.elems[i], lb.v, KW(lb))})))
    [] lb.op = "containsC"   -> SR(st, SBoolR(\E i \in 1..n : KMatch(x.cmp, x.elems[i], lb.v, KW(lb))))
    [] lb.op = "equalRange" -> SR(st, RunR(IF Has(x, lb.v) THEN <<RepOf(x, lb.v)>> ELSE <<>>))
    [] lb.op = "iterate"  -> SR(st, SValR(n))
    [] lb.op = "relocate" -> SR(st, SNoRet)
    [] lb.op \in {"extractKey", "extractPos"} ->
         LET v == IF lb.op = "extractPos" THEN x.elems[lb.h + 1] ELSE lb.v
             has == lb.op = "extractPos" \/ Has(x, v)
         IN SR([st EXCEPT !.s[c] = EraseKey(c, x, v), !.node = IF has THEN [has |-> TRUE, v |-> RepOf(x, v), t |-> STypeId[c]] ELSE NoNode],
               SBoolR(has))
    [] lb.op \in {"insertNode", "insertNodeHint"} ->
         \* an insert(node) that meets an equivalent element leaves the node owning its value
         IF ~st.node.has THEN SR(st, InsR(END, FALSE))
         ELSE LET v == st.node.v
                  ins == ~Has(x, v)
              IN SR([st EXCEPT !.s[c] = SetPri(c, x.pri, InsertOneC(c, x, v)), !.node = IF ins THEN NoNode ELSE st.node],
                    InsR(IF ins THEN v ELSE RepOf(x, v), ins))
    [] lb.op = "dropNode" -> SR([st EXCEPT !.node = NoNode], SNoRet)
    \* the value of an extracted node may be changed before it is inserted again (the point of node handles)
    [] lb.op = "nodeSetValue" -> SR([st EXCEPT !.node.v = lb.v], SNoRet)
    [] lb.op = "nodeValue"    -> SR(st, SValR(st.node.v))
    [] lb.op \in {"mergeSame", "mergeOther"} ->
         \* every element of the source without an equivalent in the destination moves over, the others stay
         IF c = d THEN SR(st, SNoRet)
         \* (the source is walked in its own order; an element stays when the destination - as it is by then - holds
         \*  an equivalent one: with a destination comparator coarser than the source's, two source elements may be
         \*  equivalent to each other for the destination, and only the first of them moves)
         ELSE LET y == st.s[d]
                  \* SmallSet::merge from a large source first moves the destination's own elements to its backing set
                  x1 == IF SFlav[c] = "small" /\ y.large /\ ~x.large THEN [Grow(x) EXCEPT !.large = TRUE] ELSE x
                  mf == FoldLeft(LAMBDA acc, e : IF Has(acc.x, e) THEN [acc EXCEPT !.stay = Append(@, e)]
                                                 ELSE [x |-> InsertOneC(c, acc.x, e), stay |-> acc.stay],
                                 [x |-> x1, stay |-> <<>>], y.elems)
                  x2 == mf.x
                  x3 == IF SFlav[c] = "small" /\ y.large THEN [x2 EXCEPT !.large = (x2.elems # <<>>)] ELSE x2
              IN SR([st EXCEPT !.s[c] = SetPri(c, x.pri /\ y.pri, x3),
                               !.s[d] = Norm(d, [y EXCEPT !.elems = mf.stay])], SNoRet)
    [] lb.op = "swap" ->
         LET y == st.s[d]
             p == x.pri /\ y.pri
         IN IF c = d THEN SR(st, SNoRet)
            ELSE SR([st EXCEPT !.s[c] = [y EXCEPT !.pri = p], !.s[d] = [x EXCEPT !.pri = p]], SNoRet)
    [] lb.op = "assignCopy" ->
         IF c = d THEN SR(st, SNoRet)
         ELSE SR(SUpd(st, c, [st.s[d] EXCEPT !.pri = x.pri /\ st.s[d].pri /\ Len(st.s[d].elems) <= SN[c]]), SNoRet)
    [] lb.op = "assignMove" ->
         SR([st EXCEPT !.s[c] = [st.s[d] EXCEPT !.pri = x.pri /\ st.s[d].pri],
                       !.s[d] = [st.s[d] EXCEPT !.elems = <<>>, !.pri = TRUE, !.large = FALSE]], SNoRet)
    [] lb.op = "stealVector" -> SR(SUpd(st, c, [x EXCEPT !.elems = <<>>]), RunR(x.elems))
    \* comparisons are those of std::set: on the elements in comparator order
    [] lb.op = "eq" -> SR(st, SBoolR(SortedOf(x) = SortedOf(st.s[d])))
    [] lb.op = "ne" -> SR(st, SBoolR(SortedOf(x) # SortedOf(st.s[d])))
    [] lb.op = "lt" -> SR(st, SBoolR(LexLess(SortedOf(x), SortedOf(st.s[d]))))
    [] lb.op = "le" -> SR(st, SBoolR(~LexLess(SortedOf(st.s[d]), SortedOf(x))))
    [] lb.op = "gt" -> SR(st, SBoolR(LexLess(SortedOf(st.s[d]), SortedOf(x))))
    [] lb.op = "ge" -> SR(st, SBoolR(~LexLess(SortedOf(x), SortedOf(st.s[d]))))

-----------------------------------------------------------------------------
(* DESIGN of FlatSet::insert_hint (flatset.hpp), branch by branch, with its comparator calls counted: TLC checks    *)
(* on it that a hint is only a hint (C12) and that a correct hint is search free (C19).                              *)
\* binary search (std::lower_bound) over E[lo..hi) (1-based, hi exclusive) counting comparisons
RECURSIVE LbSearch(_, _, _, _, _, _)
LbSearch(cmp, E, lo, hi, v, cnt) ==
  IF lo >= hi THEN [i |-> lo, cnt |-> cnt]
  ELSE LET mid == lo + (hi - lo) \div 2
       IN IF Lt(cmp, E[mid], v) THEN LbSearch(cmp, E, mid + 1, hi, v, cnt + 1) ELSE LbSearch(cmp, E, lo, mid, v, cnt + 1)

\* result: [elems, pos (1-based index of the returned iterator), cnt (comparator calls)]
DInsertVal(cmp, E, v, cnt0) ==
  LET r == LbSearch(cmp, E, 1, Len(E) + 1, v, cnt0)
      isNew == r.i = Len(E) + 1 \/ Lt(cmp, v, E[r.i])
      cnt == r.cnt + (IF r.i = Len(E) + 1 THEN 0 ELSE 1)
  IN [elems |-> IF isNew THEN InsertSeq(E, r.i - 1, <<v>>) ELSE E, pos |-> r.i, cnt |-> cnt]

DInsertHint(cmp, E, h, v) ==      \* h: 1-based hint position in 1..Len(E)+1
  LET e == Len(E) + 1
      InsAt(i, cnt) == [elems |-> InsertSeq(E, i - 1, <<v>>), pos |-> i, cnt |-> cnt]
      Keep(i, cnt) == [elems |-> E, pos |-> i, cnt |-> cnt]
      c1 == IF h = e THEN 0 ELSE 1                                    \* !comp(*hint, v)
  IN
  IF h = e \/ ~Lt(cmp, E[h], v)
  THEN LET c2 == c1 + (IF h = 1 THEN 0 ELSE 1) IN                     \* !comp(v, *prev)
       IF h = 1 \/ ~Lt(cmp, v, E[h - 1])
       THEN LET c3 == c2 + (IF h # e THEN 1 ELSE 0) IN                \* !comp(v, *hint)
            IF h # e /\ ~Lt(cmp, v, E[h]) THEN Keep(h, c3)
            ELSE LET c4 == c3 + (IF h # 1 THEN 1 ELSE 0) IN           \* !comp(*prev, v)
                 IF h # 1 /\ ~Lt(cmp, E[h - 1], v) THEN Keep(h - 1, c4)
                 ELSE InsAt(h, c4)
       ELSE LET r == LbSearch(cmp, E, 1, h - 1, v, c2)
                c5 == r.cnt + (IF r.i = h - 1 THEN 0 ELSE 1)
            IN IF r.i = h - 1 \/ Lt(cmp, v, E[r.i]) THEN InsAt(r.i, c5) ELSE Keep(r.i, c5)
  ELSE LET nx == h + 1
           c6 == c1 + (IF nx = e THEN 0 ELSE 1)                       \* !comp(*next, v)
       IN IF nx = e \/ ~Lt(cmp, E[nx], v)
          THEN LET c7 == c6 + (IF nx # e THEN 1 ELSE 0) IN            \* !comp(v, *next)
               IF nx # e /\ ~Lt(cmp, v, E[nx]) THEN Keep(nx, c7) ELSE InsAt(nx, c7)
          ELSE DInsertVal(cmp, E, v, c6)

\* the theorem checked by TLC for every sorted E over a key domain, every hint and every value
HintOK(cmp, E, h, v) ==
  LET x == [ex |-> TRUE, elems |-> E, cmp |-> cmp, pri |-> FALSE, large |-> FALSE]
      r == DInsertHint(cmp, E, h, v)
  IN /\ r.elems = InsertOne(x, v).elems
     /\ Equiv(cmp, r.elems[r.pos], v)
     /\ (h = LbIdx(x, v) => r.cnt <= 4)                 \* correct hint: constant number of comparisons

-----------------------------------------------------------------------------
(* DESIGN of FlatSet::merge (flatset.hpp), both algorithms, as functions on sorted sequences:                        *)
(*   mergeUnordered: for every source element in source order, lower_bound in the destination, then push_back /     *)
(*                   insert / keep - used whenever the comparator has state or the comparator types differ           *)
(*   merge(FlatSet&) for a stateless comparator: one simultaneous pass over both sorted vectors                      *)
(* and the std::set meaning they have to implement (source walked in its order against the destination as it is by   *)
(* then).  MergeTheorem is evaluated by TLC for every pair of sets over a key domain and every pair of comparator      *)
(* states; MergeOrderedWrong states what the pinned tree assumed (F13) and must be refuted.                            *)
DLowerBound(cmp, A, e) == Cardinality({i \in 1..Len(A) : Lt(cmp, A[i], e)}) + 1
DMergeUnordered(cmp, A, B) ==
  FoldLeft(LAMBDA acc, e :
             LET lb == DLowerBound(cmp, acc.a, e) IN
             IF lb = Len(acc.a) + 1 THEN [acc EXCEPT !.a = Append(@, e)]
             ELSE IF Lt(cmp, e, acc.a[lb]) THEN [acc EXCEPT !.a = InsertSeq(@, lb - 1, <<e>>)]
             ELSE [acc EXCEPT !.b = Append(@, e)],
           [a |-> A, b |-> <<>>], B)
RECURSIVE DMergeOrdered(_, _, _, _, _)
DMergeOrdered(cmp, A, B, i, j) ==      \* i, j: first1 / first2 as 1-based indices
  IF j > Len(B) THEN [a |-> A, b |-> B]
  ELSE IF i > Len(A) THEN [a |-> A \o SubSeq(B, j, Len(B)), b |-> SubSeq(B, 1, j - 1)]
  ELSE IF Lt(cmp, A[i], B[j]) THEN DMergeOrdered(cmp, A, B, i + 1, j)
  ELSE IF Lt(cmp, B[j], A[i]) THEN DMergeOrdered(cmp, InsertSeq(A, i - 1, <<B[j]>>), EraseRange(B, j - 1, j), i + 1, j)
  ELSE DMergeOrdered(cmp, A, B, i + 1, j + 1)
\* std::set meaning on plain sequences
MergeStd(cmp, A, B) ==
  LET X(E) == [ex |-> TRUE, elems |-> E, cmp |-> cmp, pri |-> FALSE, large |-> FALSE] IN
  FoldLeft(LAMBDA acc, e : IF Has(X(acc.a), e) THEN [acc EXCEPT !.b = Append(@, e)] ELSE [acc EXCEPT !.a = InsertSorted(X(@), e).elems],
           [a |-> A, b |-> <<>>], B)
\* the sorted content of a set of keys for a comparator state (one representative per equivalence class)
SortedReps(cmp, S) ==
  SetToSortSeq({v \in S : \A w \in S : Equiv(cmp, v, w) => v <= w}, LAMBDA a, b : Lt(cmp, a, b))

-----------------------------------------------------------------------------
(* Legal labels per operation (model checking / random driving) *)
SLookups == {"find", "contains", "count", "lowerBound", "upperBound", "equalRange"}
SLookupsK == {"findK", "containsK", "countK", "lowerBoundK", "upperBoundK", "lowerBoundC", "upperBoundC", "countC", "containsC"}
SBin == {"swap", "assignCopy", "assignMove", "eq", "ne", "lt", "le", "gt", "ge", "mergeSame"}
SCtors == {"ctorDefault", "ctorRange", "ctorIlist", "ctorFromVec", "ctorCopy", "ctorMove"}
SFlatOnly == {"ctorFromVec", "assignVec", "stealVector", "lowerBound", "upperBound", "equalRange", "lowerBoundK", "upperBoundK",
              "lowerBoundC", "upperBoundC", "front", "back", "index", "at", "reserve", "shrinkToFit"}
SNodeOps == {"dropNode", "nodeSetValue", "nodeValue"}
SAllOps == SLookups \cup SLookupsK \cup SBin \cup SCtors \cup
           {"destroy", "insert", "insertRv", "emplace", "insertHint", "insertHintRv", "emplaceHint", "insertRange", "insertIlist",
            "assignIlist", "assignVec", "eraseKey", "erasePos", "eraseRange", "eraseLoop", "clear", "iterate", "relocate",
            "extractKey", "extractPos", "insertNode", "insertNodeHint", "dropNode", "mergeOther", "stealVector",
            "eraseIf", "front", "back", "index", "at", "reserve", "shrinkToFit", "nodeSetValue", "nodeValue"}

SOpLabels(st, c, o, Keys, Cms, Its, RLens, MaxLen) ==
  LET x == st.s[c]
      n == Len(x.elems)
      Ranges == UNION {[1..m -> Keys] : m \in RLens}
      Same == {e \in SSlots : st.s[e].ex /\ STypeId[e] = STypeId[c]}
      notSmall == SFlav[c] # "small"
      ok == o \notin SFlatOnly \/ SFlav[c] = "flat" \/
            (SFlav[c] = "std" /\ o \in {"lowerBound", "upperBound", "equalRange", "lowerBoundK", "upperBoundK", "lowerBoundC", "upperBoundC"})
      Room(m) == m <= MaxLen
  IN
  IF ~ok THEN {}
  ELSE IF ~x.ex THEN
    CASE o = "ctorDefault" -> {SLbl(o, c, 0, 0, 0, 0, cm, "", <<>>) : cm \in Cms}
      [] o = "ctorRange"   -> {SLbl(o, c, 0, 0, 0, 0, cm, it, vs) : cm \in Cms, it \in Its, vs \in {r \in Ranges : Room(Len(r))}}
      [] o \in {"ctorIlist", "ctorFromVec"} -> {SLbl(o, c, 0, 0, 0, 0, cm, "", vs) : cm \in Cms, vs \in {r \in Ranges : Room(Len(r))}}
      [] o \in {"ctorCopy", "ctorMove"} -> {SLbl(o, c, d, 0, 0, 0, 0, "", <<>>) : d \in Same \ {c}}
      [] OTHER -> {}
  ELSE
    CASE o \in {"insert", "insertRv", "emplace"} -> {SLbl(o, c, 0, v, 0, 0, 0, "", <<>>) : v \in {w \in Keys : Room(n + 1) \/ Has(x, w)}}
      [] o \in {"insertHint", "insertHintRv", "emplaceHint"} ->
           {SLbl(o, c, 0, v, h, 0, 0, "", <<>>) : v \in {w \in Keys : Room(n + 1) \/ Has(x, w)}, h \in 0..n}
      [] o = "insertRange" -> {SLbl(o, c, 0, 0, 0, 0, 0, it, vs) : it \in Its, vs \in {r \in Ranges : Room(n + Len(r))}}
      [] o \in {"insertIlist", "assignIlist", "assignVec"} -> {SLbl(o, c, 0, 0, 0, 0, 0, "", vs) : vs \in {r \in Ranges : Room(n + Len(r))}}
      [] o \in {"lowerBoundC", "upperBoundC", "countC", "containsC"} ->
           {SLbl(o, c, 0, vw[1], 0, vw[2], 0, "", <<>>) :
               vw \in UNION {{<<(k \div m) \div (IF w = 0 THEN 2 ELSE w), w>> : k \in Keys, m \in {1, 2}} : w \in {0, 3}}}
      [] o \in {"eraseKey", "extractKey"} \cup SLookups \cup SLookupsK -> {SLbl(o, c, 0, v, 0, 0, 0, "", <<>>) : v \in Keys}
      [] o \in {"erasePos", "extractPos"} -> {SLbl(o, c, 0, 0, h, 0, 0, "", <<>>) : h \in 0..n - 1}
      [] o = "eraseRange" -> {SLbl(o, c, 0, 0, pq[1], pq[2], 0, "", <<>>) : pq \in {w \in (0..n) \X (0..n) : w[1] <= w[2]}}
      [] o \in {"eraseLoop", "eraseIf"} -> {SLbl(o, c, 0, 0, 0, m, 0, "", <<>>) : m \in 0..1}
      [] o \in {"front", "back"} -> IF n > 0 THEN {SLbl(o, c, 0, 0, 0, 0, 0, "", <<>>)} ELSE {}
      [] o = "index"      -> {SLbl(o, c, 0, 0, h, 0, 0, "", <<>>) : h \in 0..n - 1}
      [] o = "at"         -> {SLbl(o, c, 0, 0, h, 0, 0, "", <<>>) : h \in 0..n}
      [] o = "reserve"    -> {SLbl(o, c, 0, 0, 0, m, 0, "", <<>>) : m \in {0, n + 1, MaxLen + 2}}
      [] o = "shrinkToFit" -> {SLbl(o, c, 0, 0, 0, 0, 0, "", <<>>)}
      [] o \in {"clear", "iterate", "relocate", "destroy", "stealVector"} -> {SLbl(o, c, 0, 0, 0, 0, 0, "", <<>>)}
      [] o = "insertNode" -> IF st.node.has /\ st.node.t = STypeId[c] /\ (Room(n + 1) \/ Has(x, st.node.v)) THEN {SLbl(o, c, 0, 0, 0, 0, 0, "", <<>>)} ELSE {}
      [] o = "insertNodeHint" -> IF st.node.has /\ st.node.t = STypeId[c] /\ (Room(n + 1) \/ Has(x, st.node.v)) THEN {SLbl(o, c, 0, 0, h, 0, 0, "", <<>>) : h \in 0..n} ELSE {}
      [] o \in {"dropNode", "nodeValue"} -> IF st.node.has /\ c = 1 THEN {SLbl(o, c, 0, 0, 0, 0, 0, "", <<>>)} ELSE {}
      [] o = "nodeSetValue" -> IF st.node.has /\ c = 1 THEN {SLbl(o, c, 0, v, 0, 0, 0, "", <<>>) : v \in Keys} ELSE {}
      [] o = "mergeSame"  -> {SLbl(o, c, d, 0, 0, 0, 0, "", <<>>) : d \in {e \in Same : Room(n + Len(st.s[e].elems))}}
      [] o = "mergeOther" -> {SLbl(o, c, d, 0, 0, 0, 0, "", <<>>) :
                                d \in {e \in SSlots : st.s[e].ex /\ SCmpType[e] # SCmpType[c] /\ SFlav[e] = SFlav[c]
                                                      /\ Room(n + Len(st.s[e].elems))}}
      [] o \in SBin       -> {SLbl(o, c, d, 0, 0, 0, 0, "", <<>>) : d \in IF o = "assignMove" THEN Same \ {c} ELSE Same}
      [] OTHER -> {}

SLabelsOf(st, Ops, Keys, Cms, Its, RLens, MaxLen) ==
  \* a node handle is extracted only when none is pending (the pool has one)
  {lb \in UNION {SOpLabels(st, c, o, Keys, Cms, Its, RLens, MaxLen) : c \in SSlots, o \in Ops} :
     lb.op \in {"extractKey", "extractPos"} => ~st.node.has}

-----------------------------------------------------------------------------
(* Invariants *)
SortedStrict(st) ==
  \A c \in SSlots : st.s[c].ex =>
     LET e == SortedOf(st.s[c]) IN
     /\ \A i \in 1..Len(e) - 1 : Lt(st.s[c].cmp, e[i], e[i + 1])                     \* no two equivalent elements
     /\ (SFlav[c] # "small" \/ st.s[c].large => e = st.s[c].elems)                   \* iteration in comparator order
     /\ (SFlav[c] = "small" /\ ~st.s[c].large => Len(e) <= SN[c])                     \* inline within N
     /\ (SFlav[c] = "small" /\ st.s[c].large => e # <<>>)
=============================================================================
