-------------------------------- MODULE Slots --------------------------------
(* DESIGN model of the element-shifting helpers of vectorcommon.hpp at the level of single element life-cycle       *)
(* primitives.  A buffer is a sequence of slots  [s |-> "raw" | "live" | "moved", v |-> value];  a primitive applied  *)
(* in a state its C++ counterpart must not meet (construct over an object, assign / destroy / read raw memory,        *)
(* read a moved-from object, byte-relocate a non relocatable type ...) sets the error flag.                           *)
(*                                                                                                                    *)
(* Every helper exists twice in the code (enable_if on is_trivially_relocatable): the pair must agree on which slots  *)
(* are raw, live or moved-from at each hand-over (C02), and the rollback paths must restore the vector (C09).         *)
(* SlotsTheorem (evaluated by TLC for every size / position / count / throw index / trait) states that for             *)
(*   insert(pos, n, v)   = shift_right(n, count); fill_after_shift  [rollback: unshift_right]                         *)
(*   insert(pos, v)      = shift_right(n); assign_after_shift        [rollback: shift_left]                           *)
(*   emplace(pos, args)  = temporary; shift_right(n); relocate_after_shift                                            *)
(*   erase(first, last) / erase(pos) / assign(n, v) (fill)                                                            *)
(* no primitive is ever misapplied, the result is the std::vector one, and a throwing copy leaves the vector as it    *)
(* was.  Dev switches known-bad variants on (anti-vacuity): "F09" = the pinned fill order without rollback,            *)
(* "shiftLeftTrait" = shift_left selected by the wrong trait (seeded change C02).                                      *)
EXTENDS Integers, Sequences, FiniteSets, SequencesExt

CONSTANTS MaxSz,     \* sizes explored 0..MaxSz
          MaxCount,  \* counts explored 0..MaxCount
          Dev

Raw == [s |-> "raw", v |-> 0]
Live(v) == [s |-> "live", v |-> v]
B0(b) == [b |-> b, err |-> FALSE, thrown |-> FALSE]
Err(S) == [S EXCEPT !.err = TRUE]
Set(S, i, x) == [S EXCEPT !.b[i] = x]
InRange(S, i) == i >= 1 /\ i <= Len(S.b)

\* ---- primitives (no-ops once an exception is in flight)
Construct(S, i, v) == IF S.thrown THEN S ELSE IF ~InRange(S, i) \/ S.b[i].s # "raw" THEN Err(S) ELSE Set(S, i, Live(v))
MoveConstruct(S, d, f) ==
  IF S.thrown THEN S
  ELSE IF ~InRange(S, d) \/ ~InRange(S, f) \/ S.b[d].s # "raw" \/ S.b[f].s # "live" THEN Err(S)
  ELSE Set(Set(S, d, Live(S.b[f].v)), f, [s |-> "moved", v |-> 0])
MoveAssign(S, d, f) ==
  IF S.thrown THEN S
  ELSE IF ~InRange(S, d) \/ ~InRange(S, f) \/ d = f \/ S.b[d].s = "raw" \/ S.b[f].s # "live" THEN Err(S)
  ELSE Set(Set(S, d, Live(S.b[f].v)), f, [s |-> "moved", v |-> 0])
CopyAssign(S, d, v) == IF S.thrown THEN S ELSE IF ~InRange(S, d) \/ S.b[d].s = "raw" THEN Err(S) ELSE Set(S, d, Live(v))
Destroy(S, i) == IF ~InRange(S, i) \/ S.b[i].s = "raw" THEN Err(S) ELSE Set(S, i, Raw)      \* (runs also while unwinding)
ByteReloc(S, tr, d, f) ==       \* memmove of one element: only for relocatable types, onto raw memory
  IF S.thrown THEN S
  ELSE IF ~tr \/ ~InRange(S, d) \/ ~InRange(S, f) \/ S.b[f].s # "live" \/ (d # f /\ S.b[d].s # "raw") THEN Err(S)
  ELSE IF d = f THEN S ELSE Set(Set(S, d, S.b[f]), f, Raw)

\* ---- loops (indices are 1-based slot numbers)
Up(a, n) == [i \in 1..n |-> a + i - 1]                 \* a, a+1, ..., a+n-1
Down(a, n) == [i \in 1..n |-> a + n - i]               \* a+n-1, ..., a
RelocN(S, tr, f, n, d) ==                              \* uninitialized_relocate_n (memmove semantics: overlap safe)
  FoldLeft(LAMBDA T, i : ByteReloc(T, tr, d + (i - f), i), S, IF d <= f THEN Up(f, n) ELSE Down(f, n))
UMoveN(S, f, n, d) == FoldLeft(LAMBDA T, i : MoveConstruct(T, d + (i - f), i), S, Up(f, n))     \* uninitialized_move_n
MoveBackward(S, f, l, dl) ==                           \* std::move_backward([f,l) -> ends at dl)
  FoldLeft(LAMBDA T, i : MoveAssign(T, dl - (l - i), i), S, Down(f, l - f))
MoveFwd(S, f, l, d) == FoldLeft(LAMBDA T, i : MoveAssign(T, d + (i - f), i), S, Up(f, l - f))   \* std::move
DestroyN(S, f, n) == FoldLeft(LAMBDA T, i : Destroy(T, i), S, Up(f, n))
\* a copy that may throw: the k-th throwing-capable copy of the scenario throws (cnt counts them)
Copying(S, cnt, k, Do(_)) == IF S.thrown THEN <<S, cnt>> ELSE IF cnt + 1 = k THEN <<[S EXCEPT !.thrown = TRUE], cnt + 1>> ELSE <<Do(S), cnt + 1>>
FillN(P, f, n, v, k) ==                                \* std::fill_n : P = <<S, cnt>>
  FoldLeft(LAMBDA Q, i : Copying(Q[1], Q[2], k, LAMBDA T : CopyAssign(T, i, v)), P, Up(f, n))
UFillN(P, f, n, v, k) ==                               \* std::uninitialized_fill_n: destroys what it constructed when it throws
  LET R == FoldLeft(LAMBDA Q, i : Copying(Q[1], Q[2], k, LAMBDA T : Construct(T, i, v)), P, Up(f, n))
      made == {i \in f..(f + n - 1) : R[1].b[i].s = "live" /\ P[1].b[i].s = "raw"}
  IN IF R[1].thrown /\ ~P[1].thrown THEN <<FoldLeft(LAMBDA T, i : Destroy(T, i), R[1], SetToSeq(made)), R[2]>> ELSE R

\* ---- the helpers, both trait variants
ShiftRight1(S, tr, f, n) ==
  IF tr THEN RelocN(S, tr, f, n, f + 1)
  ELSE MoveBackward(MoveConstruct(S, f + n, f + n - 1), f, f + n - 1, f + n)
ShiftRight(S, tr, f, n, count) ==
  IF tr THEN RelocN(S, tr, f, n, f + count)
  ELSE IF count < n THEN MoveBackward(UMoveN(S, f + n - count, count, f + n), f, f + n - count, f + n)
  ELSE UMoveN(S, f, n, f + count)
UnshiftRight(S, tr, f, n, count) ==                    \* runs while unwinding: exception flag cleared for the primitives
  LET T == [S EXCEPT !.thrown = FALSE]
      U == IF tr THEN RelocN(T, tr, f + count, n, f)
           ELSE DestroyN(MoveFwd(T, f + count, f + count + n, f), f + (IF n > count THEN n ELSE count), IF n < count THEN n ELSE count)
  IN [U EXCEPT !.thrown = TRUE]
FillAfterShift(S, tr, f, n, count, v, k) ==
  IF tr THEN UFillN(<<S, 0>>, f, count, v, k)[1]
  ELSE IF "F09" \in Dev
       THEN (IF n < count THEN FillN(UFillN(<<S, 0>>, f + n, count - n, v, k), f, n, v, k)[1] ELSE FillN(<<S, 0>>, f, count, v, k)[1])
       ELSE (IF n < count THEN UFillN(FillN(<<S, 0>>, f, n, v, k), f + n, count - n, v, k)[1] ELSE FillN(<<S, 0>>, f, count, v, k)[1])
ShiftLeft(S, tr, f, n) ==                              \* shift_left: n elements starting at f go one slot to the left
  LET useTR == IF "shiftLeftTrait" \in Dev THEN FALSE ELSE tr       \* (the seeded change selects it by is_trivially_copyable)
      T == [S EXCEPT !.thrown = FALSE]
      U == IF useTR THEN RelocN(T, tr, f, n, f - 1)
           ELSE Destroy(MoveFwd(MoveAssign(T, f - 1, f), f + 1, f + n, f), f + n - 1)
  IN [U EXCEPT !.thrown = TRUE]
EraseN(S, tr, f, n, count) ==                          \* erase_n: n elements erased at f, count elements follow
  IF tr THEN RelocN(DestroyN(S, f, n), tr, f + n, count, f)
  ELSE DestroyN(MoveFwd(S, f + n, f + n + count, f), f + count, n)

\* ---- scenarios on a vector of sz elements (values 1..sz) with spare capacity
Buf(sz, cap) == [i \in 1..cap |-> IF i <= sz THEN Live(i) ELSE Raw]
Vals(S, n) == [i \in 1..n |-> S.b[i].v]
Shape(S, n) == /\ \A i \in 1..Len(S.b) : (i <= n => S.b[i].s = "live") /\ (i > n => S.b[i].s = "raw")
InsSeq(s, pos, t) == SubSeq(s, 1, pos) \o t \o SubSeq(s, pos + 1, Len(s))
Iota(n) == [i \in 1..n |-> i]

InsertNOK(tr, sz, pos, count, k) ==                    \* insert(begin()+pos, count, 99) within capacity, k-th copy throws
  LET n == sz - pos
      f == pos + 1
      S0 == B0(Buf(sz, sz + count + 1))
      S1 == IF count = 0 THEN S0
            ELSE IF n = 0 THEN UFillN(<<S0, 0>>, f, count, 99, k)[1]
            ELSE LET sh == ShiftRight(S0, tr, f, n, count)
                     fl == FillAfterShift(sh, tr, f, n, count, 99, k)
                 IN IF fl.thrown /\ "F09" \notin Dev THEN UnshiftRight(fl, tr, f, n, count) ELSE fl
  IN /\ ~S1.err
     /\ IF S1.thrown THEN Shape(S1, sz) /\ Vals(S1, sz) = Iota(sz)                        \* restored (strong guarantee)
        ELSE Shape(S1, sz + count) /\ Vals(S1, sz + count) = InsSeq(Iota(sz), pos, [i \in 1..count |-> 99])

Insert1OK(tr, sz, pos, k) ==                           \* insert(begin()+pos, v): insert_n
  LET n == sz - pos
      f == pos + 1
      S0 == B0(Buf(sz, sz + 2))
      S1 == IF n = 0 THEN Copying(S0, 0, k, LAMBDA T : Construct(T, f, 99))[1]
            ELSE LET sh == ShiftRight1(S0, tr, f, n)
                     asg == Copying(sh, 0, k, LAMBDA T : IF tr THEN Construct(T, f, 99) ELSE CopyAssign(T, f, 99))[1]
                 IN IF asg.thrown THEN ShiftLeft(asg, tr, f + 1, n) ELSE asg
  IN /\ ~S1.err
     /\ IF S1.thrown THEN Shape(S1, sz) /\ Vals(S1, sz) = Iota(sz)
        ELSE Shape(S1, sz + 1) /\ Vals(S1, sz + 1) = InsSeq(Iota(sz), pos, <<99>>)

EraseOK(tr, sz, first, n) ==                           \* erase(begin()+first, begin()+first+n), n >= 1
  LET S1 == EraseN(B0(Buf(sz, sz + 1)), tr, first + 1, n, sz - first - n)
  IN ~S1.err /\ Shape(S1, sz - n) /\ Vals(S1, sz - n) = SubSeq(Iota(sz), 1, first) \o SubSeq(Iota(sz), first + n + 1, sz)

AssignFillOK(sz, count, k) ==                          \* assign(count, v) growing within capacity (non trivially copyable): fill
  LET S1 == UFillN(FillN(<<B0(Buf(sz, count + 1)), 0>>, 1, sz, 99, k), sz + 1, count - sz, 99, k)[1]
  IN /\ ~S1.err
     /\ IF S1.thrown THEN Shape(S1, sz)                                                    \* basic guarantee: size unchanged, nothing leaked
        ELSE Shape(S1, count) /\ Vals(S1, count) = [i \in 1..count |-> 99]

SlotsTheorem ==
  \A tr \in BOOLEAN : \A sz \in 0..MaxSz :
    /\ \A pos \in 0..sz : \A count \in 0..MaxCount : \A k \in 0..count : InsertNOK(tr, sz, pos, count, k)
    /\ \A pos \in 0..sz : \A k \in 0..1 : Insert1OK(tr, sz, pos, k)
    /\ \A first \in 0..sz : \A n \in 1..(sz - first) : EraseOK(tr, sz, first, n)
    /\ \A count \in (sz + 1)..(sz + MaxCount) : \A k \in 0..count : AssignFillOK(sz, count, k)

VARIABLE dummy
Init == dummy = 0
Next == UNCHANGED dummy
Spec == Init /\ [][Next]_dummy
TheoremInv == SlotsTheorem
=============================================================================
