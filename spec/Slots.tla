-------------------------------- MODULE Slots --------------------------------
(* DESIGN model of the element-shifting helpers of vectorcommon.hpp at the level of single element life-cycle       *)
(* primitives.  A buffer is a sequence of slots  [s |-> "raw" | "live" | "moved", v |-> value];  a primitive applied  *)
(* in a state its C++ counterpart must not meet (construct over an object, assign / destroy / read raw memory,        *)
(* read a moved-from object, byte-relocate a non relocatable type ...) sets the error flag.                           *)
(*                                                                                                                    *)
(* Every helper exists twice in the code (enable_if on is_trivially_relocatable): the pair must agree on which slots  *)
(* are raw, live or moved-from at each hand-over (C02), and the rollback paths must restore the vector (C09).         *)
(* SlotsTheorem (evaluated by TLC for every size / position / count / throw index / trait) states that for             *)
(*   insert(pos, n, v)   = shift_right(n, count); fill_after_shift  [rollback: unshift_right]                         *)
(*   insert(pos, v)      = shift_right(n); assign_after_shift        [rollback: shift_left]                           *)
(*   emplace(pos, args)  = temporary; shift_right(n); relocate_after_shift                                            *)
(*   erase(first, last) / erase(pos) / assign(n, v) (fill)                                                            *)
(* no primitive is ever misapplied, the result is the std::vector one, and a throwing copy leaves the vector as it    *)
(* was.  Dev switches known-bad variants on (anti-vacuity): "F09" = the pinned fill order without rollback,            *)
(* "shiftLeftTrait" = shift_left selected by the wrong trait (seeded change C02).                                      *)
(* MoveTheorem: for element types whose MOVE operations may throw (the mk-th move constructor / move assignment of     *)
(* the scenario throws), every scenario still misapplies no primitive and leaks nothing: after unwinding every slot   *)
(* below the (unchanged) size holds an object (possibly moved-from, which no implementation can avoid), every slot    *)
(* beyond it and the temporary of emplace are raw.  "F28" = shift_right without its clean-up, "F27" = emplace that     *)
(* only destroys its temporary when growing throws (both as on the pinned tree).                                       *)
EXTENDS Integers, Sequences, FiniteSets, SequencesExt

CONSTANTS MaxSz,     \* sizes explored 0..MaxSz
          MaxCount,  \* counts explored 0..MaxCount
          Dev

Raw == [s |-> "raw", v |-> 0]
Live(v) == [s |-> "live", v |-> v]
B0(b) == [b |-> b, err |-> FALSE, thrown |-> FALSE, mcnt |-> 0, mk |-> 0]     \* mk: which move throws (0: none)
BM(b, mk) == [B0(b) EXCEPT !.mk = mk]
\* a move operation that may throw: the mk-th one does (before touching anything), the others are counted
Moving(S, Do(_)) ==
  IF S.mk = 0 THEN Do(S)
  ELSE IF S.mcnt + 1 = S.mk THEN [S EXCEPT !.thrown = TRUE, !.mcnt = @ + 1]
  ELSE Do([S EXCEPT !.mcnt = @ + 1])
Then(S, F(_)) == IF S.thrown THEN S ELSE F(S)           \* sequencing: F is skipped when an exception is in flight
Unwinding(S, F(_)) == [F([S EXCEPT !.thrown = FALSE]) EXCEPT !.thrown = TRUE]   \* a catch block: runs, then rethrows
Err(S) == [S EXCEPT !.err = TRUE]
Set(S, i, x) == [S EXCEPT !.b[i] = x]
InRange(S, i) == i >= 1 /\ i <= Len(S.b)

\* ---- primitives (no-ops once an exception is in flight)
Construct(S, i, v) == IF S.thrown THEN S ELSE IF ~InRange(S, i) \/ S.b[i].s # "raw" THEN Err(S) ELSE Set(S, i, Live(v))
MoveConstruct(S, d, f) ==
  IF S.thrown THEN S
  ELSE IF ~InRange(S, d) \/ ~InRange(S, f) \/ S.b[d].s # "raw" \/ S.b[f].s # "live" THEN Err(S)
  ELSE Moving(S, LAMBDA T : Set(Set(T, d, Live(T.b[f].v)), f, [s |-> "moved", v |-> 0]))
MoveAssign(S, d, f) ==
  IF S.thrown THEN S
  ELSE IF ~InRange(S, d) \/ ~InRange(S, f) \/ d = f \/ S.b[d].s = "raw" \/ S.b[f].s # "live" THEN Err(S)
  ELSE Moving(S, LAMBDA T : Set(Set(T, d, Live(T.b[f].v)), f, [s |-> "moved", v |-> 0]))
CopyAssign(S, d, v) == IF S.thrown THEN S ELSE IF ~InRange(S, d) \/ S.b[d].s = "raw" THEN Err(S) ELSE Set(S, d, Live(v))
Destroy(S, i) == IF ~InRange(S, i) \/ S.b[i].s = "raw" THEN Err(S) ELSE Set(S, i, Raw)      \* (runs also while unwinding)
ByteReloc(S, tr, d, f) ==       \* memmove of one element: only for relocatable types, onto raw memory
  IF S.thrown THEN S
  ELSE IF ~tr \/ ~InRange(S, d) \/ ~InRange(S, f) \/ S.b[f].s # "live" \/ (d # f /\ S.b[d].s # "raw") THEN Err(S)
  ELSE IF d = f THEN S ELSE Set(Set(S, d, S.b[f]), f, Raw)

\* ---- loops (indices are 1-based slot numbers)
Up(a, n) == [i \in 1..n |-> a + i - 1]                 \* a, a+1, ..., a+n-1
Down(a, n) == [i \in 1..n |-> a + n - i]               \* a+n-1, ..., a
RelocN(S, tr, f, n, d) ==                              \* uninitialized_relocate_n (memmove semantics: overlap safe)
  FoldLeft(LAMBDA T, i : ByteReloc(T, tr, d + (i - f), i), S, IF d <= f THEN Up(f, n) ELSE Down(f, n))
UMoveN(S, f, n, d) ==                                  \* uninitialized_move_n: destroys what it constructed when a move throws (C15)
  LET R == FoldLeft(LAMBDA T, i : MoveConstruct(T, d + (i - f), i), S, Up(f, n))
      made == {j \in d..(d + n - 1) : R.b[j].s = "live" /\ S.b[j].s = "raw"}
  IN IF R.thrown /\ ~S.thrown THEN FoldLeft(LAMBDA T, j : Destroy(T, j), R, SetToSeq(made)) ELSE R
MoveBackward(S, f, l, dl) ==                           \* std::move_backward([f,l) -> ends at dl)
  FoldLeft(LAMBDA T, i : MoveAssign(T, dl - (l - i), i), S, Down(f, l - f))
MoveFwd(S, f, l, d) == FoldLeft(LAMBDA T, i : MoveAssign(T, d + (i - f), i), S, Up(f, l - f))   \* std::move
DestroyN(S, f, n) == FoldLeft(LAMBDA T, i : Destroy(T, i), S, Up(f, n))
\* a copy that may throw: the k-th throwing-capable copy of the scenario throws (cnt counts them)
Copying(S, cnt, k, Do(_)) == IF S.thrown THEN <<S, cnt>> ELSE IF cnt + 1 = k THEN <<[S EXCEPT !.thrown = TRUE], cnt + 1>> ELSE <<Do(S), cnt + 1>>
FillN(P, f, n, v, k) ==                                \* std::fill_n : P = <<S, cnt>>
  FoldLeft(LAMBDA Q, i : Copying(Q[1], Q[2], k, LAMBDA T : CopyAssign(T, i, v)), P, Up(f, n))
UFillN(P, f, n, v, k) ==                               \* std::uninitialized_fill_n: destroys what it constructed when it throws
  LET R == FoldLeft(LAMBDA Q, i : Copying(Q[1], Q[2], k, LAMBDA T : Construct(T, i, v)), P, Up(f, n))
      made == {i \in f..(f + n - 1) : R[1].b[i].s = "live" /\ P[1].b[i].s = "raw"}
  IN IF R[1].thrown /\ ~P[1].thrown THEN <<FoldLeft(LAMBDA T, i : Destroy(T, i), R[1], SetToSeq(made)), R[2]>> ELSE R

\* ---- the helpers, both trait variants
\* (non relocatable variants: the tail is move-constructed into raw memory first; when a later move assignment throws,
\*  those new objects - which the size does not count yet - are destroyed again: the F28 repair)
ShiftRight1(S, tr, f, n) ==
  IF tr THEN RelocN(S, tr, f, n, f + 1)
  ELSE LET T1 == MoveConstruct(S, f + n, f + n - 1)
           T2 == MoveBackward(T1, f, f + n - 1, f + n)
       IN IF T2.thrown /\ ~T1.thrown /\ "F28" \notin Dev THEN Unwinding(T2, LAMBDA U : Destroy(U, f + n)) ELSE T2
ShiftRight(S, tr, f, n, count) ==
  IF tr THEN RelocN(S, tr, f, n, f + count)
  ELSE IF count < n
       THEN LET T1 == UMoveN(S, f + n - count, count, f + n)
                T2 == MoveBackward(T1, f, f + n - count, f + n)
            IN IF T2.thrown /\ ~T1.thrown /\ "F28" \notin Dev THEN Unwinding(T2, LAMBDA U : DestroyN(U, f + n, count)) ELSE T2
  ELSE UMoveN(S, f, n, f + count)
UnshiftRight(S, tr, f, n, count) ==                    \* runs while unwinding: exception flag cleared for the primitives
  LET T == [S EXCEPT !.thrown = FALSE]
      U == IF tr THEN RelocN(T, tr, f + count, n, f)
           ELSE DestroyN(MoveFwd(T, f + count, f + count + n, f), f + (IF n > count THEN n ELSE count), IF n < count THEN n ELSE count)
  IN [U EXCEPT !.thrown = TRUE]
FillAfterShift(S, tr, f, n, count, v, k) ==
  IF tr THEN UFillN(<<S, 0>>, f, count, v, k)[1]
  ELSE IF "F09" \in Dev
       THEN (IF n < count THEN FillN(UFillN(<<S, 0>>, f + n, count - n, v, k), f, n, v, k)[1] ELSE FillN(<<S, 0>>, f, count, v, k)[1])
       ELSE (IF n < count THEN UFillN(FillN(<<S, 0>>, f, n, v, k), f + n, count - n, v, k)[1] ELSE FillN(<<S, 0>>, f, count, v, k)[1])
ShiftLeft(S, tr, f, n) ==                              \* shift_left: n elements starting at f go one slot to the left
  LET useTR == IF "shiftLeftTrait" \in Dev THEN FALSE ELSE tr       \* (the seeded change selects it by is_trivially_copyable)
      T == [S EXCEPT !.thrown = FALSE]
      U == IF useTR THEN RelocN(T, tr, f, n, f - 1)
           ELSE Destroy(MoveFwd(MoveAssign(T, f - 1, f), f + 1, f + n, f), f + n - 1)
  IN [U EXCEPT !.thrown = TRUE]
EraseN(S, tr, f, n, count) ==                          \* erase_n: n elements erased at f, count elements follow
  IF tr THEN RelocN(DestroyN(S, f, n), tr, f + n, count, f)
  ELSE Then(MoveFwd(S, f + n, f + n + count, f), LAMBDA T : DestroyN(T, f + count, n))

\* ---- scenarios on a vector of sz elements (values 1..sz) with spare capacity
Buf(sz, cap) == [i \in 1..cap |-> IF i <= sz THEN Live(i) ELSE Raw]
Vals(S, n) == [i \in 1..n |-> S.b[i].v]
Shape(S, n) == /\ \A i \in 1..Len(S.b) : (i <= n => S.b[i].s = "live") /\ (i > n => S.b[i].s = "raw")
InsSeq(s, pos, t) == SubSeq(s, 1, pos) \o t \o SubSeq(s, pos + 1, Len(s))
Iota(n) == [i \in 1..n |-> i]

InsertNOK(tr, sz, pos, count, k) ==                    \* insert(begin()+pos, count, 99) within capacity, k-th copy throws
  LET n == sz - pos
      f == pos + 1
      S0 == B0(Buf(sz, sz + count + 1))
      S1 == IF count = 0 THEN S0
            ELSE IF n = 0 THEN UFillN(<<S0, 0>>, f, count, 99, k)[1]
            ELSE LET sh == ShiftRight(S0, tr, f, n, count)
                     fl == FillAfterShift(sh, tr, f, n, count, 99, k)
                 IN IF fl.thrown /\ "F09" \notin Dev THEN UnshiftRight(fl, tr, f, n, count) ELSE fl
  IN /\ ~S1.err
     /\ IF S1.thrown THEN Shape(S1, sz) /\ Vals(S1, sz) = Iota(sz)                        \* restored (strong guarantee)
        ELSE Shape(S1, sz + count) /\ Vals(S1, sz + count) = InsSeq(Iota(sz), pos, [i \in 1..count |-> 99])

Insert1OK(tr, sz, pos, k) ==                           \* insert(begin()+pos, v): insert_n
  LET n == sz - pos
      f == pos + 1
      S0 == B0(Buf(sz, sz + 2))
      S1 == IF n = 0 THEN Copying(S0, 0, k, LAMBDA T : Construct(T, f, 99))[1]
            ELSE LET sh == ShiftRight1(S0, tr, f, n)
                     asg == Copying(sh, 0, k, LAMBDA T : IF tr THEN Construct(T, f, 99) ELSE CopyAssign(T, f, 99))[1]
                 IN IF asg.thrown THEN ShiftLeft(asg, tr, f + 1, n) ELSE asg
  IN /\ ~S1.err
     /\ IF S1.thrown THEN Shape(S1, sz) /\ Vals(S1, sz) = Iota(sz)
        ELSE Shape(S1, sz + 1) /\ Vals(S1, sz + 1) = InsSeq(Iota(sz), pos, <<99>>)

EraseOK(tr, sz, first, n) ==                           \* erase(begin()+first, begin()+first+n), n >= 1
  LET S1 == EraseN(B0(Buf(sz, sz + 1)), tr, first + 1, n, sz - first - n)
  IN ~S1.err /\ Shape(S1, sz - n) /\ Vals(S1, sz - n) = SubSeq(Iota(sz), 1, first) \o SubSeq(Iota(sz), first + n + 1, sz)

AssignFillOK(sz, count, k) ==                          \* assign(count, v) growing within capacity (non trivially copyable): fill
  LET S1 == UFillN(FillN(<<B0(Buf(sz, count + 1)), 0>>, 1, sz, 99, k), sz + 1, count - sz, 99, k)[1]
  IN /\ ~S1.err
     /\ IF S1.thrown THEN Shape(S1, sz)                                                    \* basic guarantee: size unchanged, nothing leaked
        ELSE Shape(S1, count) /\ Vals(S1, count) = [i \in 1..count |-> 99]

\* ---- element types whose move operations may throw (never trivially relocatable): nothing misapplied, nothing leaked
NoLeak(S, sz) == \A i \in 1..Len(S.b) : (i <= sz => S.b[i].s # "raw") /\ (i > sz => S.b[i].s = "raw")
MInsertN(sz, pos, count, mk) ==                        \* insert(begin()+pos, count, v) within capacity
  LET n == sz - pos
      f == pos + 1
      S0 == BM(Buf(sz, sz + count + 1), mk)
      S1 == IF count = 0 THEN S0
            ELSE IF n = 0 THEN UFillN(<<S0, 0>>, f, count, 99, 0)[1]
            ELSE Then(ShiftRight(S0, FALSE, f, n, count), LAMBDA T : FillAfterShift(T, FALSE, f, n, count, 99, 0))
  IN ~S1.err /\ (IF S1.thrown THEN NoLeak(S1, sz) ELSE Shape(S1, sz + count))
MInsert1(sz, pos, mk) ==                               \* insert(begin()+pos, v) within capacity
  LET n == sz - pos
      f == pos + 1
      S0 == BM(Buf(sz, sz + 2), mk)
      S1 == IF n = 0 THEN Construct(S0, f, 99) ELSE Then(ShiftRight1(S0, FALSE, f, n), LAMBDA T : CopyAssign(T, f, 99))
  IN ~S1.err /\ (IF S1.thrown THEN NoLeak(S1, sz) ELSE Shape(S1, sz + 1))
MEmplace(sz, pos, mk) ==                               \* emplace(begin()+pos, args) within capacity: emplace_shift
  LET n == sz - pos                                    \* (the temporary lives in the last slot of the buffer)
      f == pos + 1
      tmp == sz + 3
      S0 == BM(Buf(sz, sz + 3), mk)
      S1 == IF n = 0 THEN Construct(S0, f, 99)
            ELSE LET T0 == Construct(S0, tmp, 99)
                     T1 == ShiftRight1(T0, FALSE, f, n)
                     T2 == Then(T1, LAMBDA T : Then(MoveAssign(T, f, tmp), LAMBDA U : Destroy(U, tmp)))       \* relocate_after_shift
                     T3 == IF T2.thrown /\ ~T1.thrown THEN ShiftLeft(T2, FALSE, f + 1, n) ELSE T2               \* inner catch
                 IN IF T3.thrown /\ ("F27" \notin Dev) THEN Unwinding(T3, LAMBDA U : Destroy(U, tmp)) ELSE T3   \* outer catch (F27 repair)
  IN ~S1.err /\ (IF S1.thrown THEN NoLeak(S1, sz) ELSE Shape(S1, sz + 1))
MErase(sz, first, n, mk) ==                            \* erase(begin()+first, begin()+first+n)
  LET S1 == EraseN(BM(Buf(sz, sz + 1), mk), FALSE, first + 1, n, sz - first - n)
  IN ~S1.err /\ (IF S1.thrown THEN NoLeak(S1, sz) ELSE Shape(S1, sz - n))
MoveTheorem ==
  \A sz \in 0..MaxSz : \A mk \in 1..(MaxSz + MaxCount + 2) :
    /\ \A pos \in 0..sz : \A count \in 0..MaxCount : MInsertN(sz, pos, count, mk)
    /\ \A pos \in 0..sz : MInsert1(sz, pos, mk) /\ MEmplace(sz, pos, mk)
    /\ \A first \in 0..sz : \A n \in 1..(sz - first) : MErase(sz, first, n, mk)

SlotsTheorem ==
  \A tr \in BOOLEAN : \A sz \in 0..MaxSz :
    /\ \A pos \in 0..sz : \A count \in 0..MaxCount : \A k \in 0..count : InsertNOK(tr, sz, pos, count, k)
    /\ \A pos \in 0..sz : \A k \in 0..1 : Insert1OK(tr, sz, pos, k)
    /\ \A first \in 0..sz : \A n \in 1..(sz - first) : EraseOK(tr, sz, first, n)
    /\ \A count \in (sz + 1)..(sz + MaxCount) : \A k \in 0..count : AssignFillOK(sz, count, k)

VARIABLE dummy
Init == dummy = 0
Next == UNCHANGED dummy
Spec == Init /\ [][Next]_dummy
TheoremInv == SlotsTheorem
MoveInv == MoveTheorem
=============================================================================
