SPECIFICATION Spec
CONSTANTS
 MaxN = 2000
 StartCaps = {0,1,2,3,4,5,6,7,8,10,16,100}
 MaxSzs = {255, 65535, 2000000000}
INVARIANT ReallocBound
INVARIANT SizeLeCapG
PROPERTY GeometricStep
CHECK_DEADLOCK FALSE
