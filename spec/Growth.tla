------------------------------- MODULE Growth -------------------------------
(* C18 on the design: appending one element at a time to a dynamic vector whose capacity grows by                  *)
(* vec::SafeNextCapacity performs at most 2*ceil(log2 n) + 4 reallocations for n appended elements, from every     *)
(* starting (size, capacity), unless the capacity is clamped by the size_type.                                     *)
EXTENDS SeqOps

CONSTANTS MaxN,        \* number of appended elements explored
          StartCaps,   \* starting capacities
          MaxSzs       \* maxima of the size_type explored

VARIABLES size, cap, start, n, reallocs, mx
vars == <<size, cap, start, n, reallocs, mx>>

NextCapG(old, need, m) == Min(Max((3 * old + 1) \div 2, need), m)

Init == /\ mx \in MaxSzs
        /\ cap \in StartCaps
        /\ size \in 0..cap
        /\ cap <= mx
        /\ start = size
        /\ n = 0
        /\ reallocs = 0

Push == /\ n < MaxN
        /\ size < mx
        /\ size' = size + 1
        /\ n' = n + 1
        /\ IF size = cap THEN cap' = NextCapG(cap, size + 1, mx) /\ reallocs' = reallocs + 1
                         ELSE UNCHANGED <<cap, reallocs>>
        /\ UNCHANGED <<start, mx>>

Spec == Init /\ [][Push]_vars

ReallocBound == cap < mx => reallocs <= 2 * CeilLog2(n) + 4
SizeLeCapG == size <= cap /\ cap <= mx
\* geometric growth: each reallocation multiplies the capacity by at least 1.5 (rounded up) unless clamped
GeometricStep == [][(cap' # cap /\ cap' < mx) => 2 * cap' >= 3 * cap]_vars
=============================================================================
