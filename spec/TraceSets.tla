------------------------------- MODULE TraceSets -------------------------------
(* Trace validation for FlatSet / SmallSet (and std::set, the reference implementation), same scheme as TraceVec:   *)
(* every line of the recording is consumed; for each call Sets!SStep gives what std::set would have produced from   *)
(* the state before the call, the step predicates of C03 / C04 / C11 / C12 / C19 / C05 / C02 / C06 / C09 / C14 are   *)
(* evaluated, failures are recorded in `viol`, and the state adopts the observation.                                 *)
EXTENDS Sets, Ledger, TLC, Json, IOUtils

TraceLog == ndJsonDeserialize(IOEnv.TRACE)
Cfg      == TraceLog[1]

TKS      == Len(Cfg.slots)
TSFlav   == [c \in 1..TKS |-> Cfg.slots[c].flav]
TSN      == [c \in 1..TKS |-> Cfg.slots[c].n]
TSTypeId == [c \in 1..TKS |-> Cfg.slots[c].tid]
TSCmpType == [c \in 1..TKS |-> Cfg.slots[c].cmpt]
TCat     == Cfg.elem
TESize   == Cfg.esize
IsRefS(c) == SFlav[c] = "std"
AllocInstrumented == Cfg.alloc \in {"amcled", "stdlike", "withrealloc"}

MaxViol == 40

VARIABLES l, st, objs, blocks, reloc, viol, stats
vars == <<l, st, objs, blocks, reloc, viol, stats>>

Stats0 == [ops |-> 0, execs |-> 0, faults |-> 0, hints |-> 0, lookups |-> 0, rangeFree |-> 0, iterOps |-> 0, pristineOps |-> 0,
           drift |-> 0, driftAt |-> <<>>, prims |-> 0, allocEvents |-> 0, cmps |-> 0, maxLookupCmps |-> 0, maxHintCmps |-> 0, skipped |-> 0, nullDealloc |-> 0, constOps |-> 0]

TInit == /\ l = 2
         /\ st = SInit
         /\ objs = <<>>
         /\ blocks = <<>>
         /\ reloc = [c \in SSlots |-> FALSE]
         /\ viol = <<>>
         /\ stats = Stats0

AddViol(v, ps, ln, why) ==
  LET new == SetToSeq({[p |-> q, l |-> ln, why |-> why] : q \in ps}) IN
  IF Len(v) >= MaxViol THEN v ELSE v \o new

\* is the label a legal call in the (adopted) state
SLegal(s, lb) ==
  /\ lb.c \in SSlots /\ lb.d \in SSlots \cup {0}
  /\ lb.op \in SAllOps
  /\ IF lb.op \in SCtors
     THEN ~s.s[lb.c].ex /\ (lb.d # 0 => s.s[lb.d].ex /\ lb.d # lb.c)
     ELSE IF lb.op \in SNodeOps THEN s.node.has
     ELSE /\ s.s[lb.c].ex
          /\ (lb.d # 0 /\ lb.op \notin {"insertNode", "insertNodeHint"} => s.s[lb.d].ex)
          /\ LET n == Len(s.s[lb.c].elems) IN
             /\ (lb.op \in {"insertHint", "insertHintRv", "emplaceHint", "insertNodeHint"} => lb.h <= n)
             /\ (lb.op \in {"erasePos", "extractPos", "index"} => lb.h < n)
             /\ (lb.op \in {"front", "back"} => n > 0)
             /\ (lb.op = "eraseRange" => lb.h <= lb.n /\ lb.n <= n)
             /\ (lb.op \in {"insertNode", "insertNodeHint"} => s.node.has /\ s.node.t = STypeId[lb.c])
             /\ (lb.op \in {"extractKey", "extractPos"} => ~s.node.has)

RangeFreeOps == {"ctorRange", "ctorIlist", "ctorFromVec", "insertRange", "insertIlist", "assignIlist", "assignVec"}
HintOps == {"insertHint", "insertHintRv", "emplaceHint", "insertNodeHint"}
IterOps == {"iterate", "eraseLoop", "eraseIf", "erasePos", "eraseRange", "find", "findK", "insert", "insertRv", "emplace", "insertHint",
            "insertHintRv", "emplaceHint", "insertNode", "insertNodeHint"}
LookupOps == SLookups \cup SLookupsK \cup {"insert", "insertRv", "emplace", "eraseKey"}
SObservers == SLookups \cup SLookupsK \cup {"iterate", "eq", "ne", "lt", "le", "gt", "ge", "front", "back", "index", "at", "nodeValue"}
Mutating == SAllOps \ SObservers

SortedBy(cmp, s) == \A i \in 1..Len(s) - 1 : Lt(cmp, s[i], s[i + 1])

TOp ==
  /\ l <= Len(TraceLog)
  /\ TraceLog[l].e = "op"
  /\ LET ev  == TraceLog[l]
         lb  == ev.lbl
         r   == ev.ret
         obs == ev.obs
         flavOwner(c) == IF c \in SSlots /\ SFlav[c] = "small" THEN {"C04"} ELSE {"C03"}
     IN
     IF r.k = "crash"
     THEN /\ viol' = AddViol(viol, flavOwner(lb.c) \cup {"C02"} \cup (IF lb.k > 0 THEN {"C09"} ELSE {}) \cup
                                   (IF lb.c \in SSlots /\ SFlav[lb.c] = "small" THEN {"C11"} ELSE {}) \cup
                                   (IF lb.op \in HintOps THEN {"C12"} ELSE {}) \cup
                                   (IF lb.op = "relocate" \/ (lb.c \in SSlots /\ reloc[lb.c]) THEN {"C14"} ELSE {}), l, "crash")
          /\ UNCHANGED <<st, objs, blocks, reloc, stats>>
          /\ l' = l + 1
     ELSE IF r.k \in {"skipped", "unsupported"} \/ ~SLegal(st, lb)
     THEN /\ viol' = IF viol = <<>> THEN AddViol(viol, {"MODEL"}, l, "label not executable: " \o r.k) ELSE viol
          /\ stats' = [stats EXCEPT !.skipped = @ + 1]
          /\ UNCHANGED <<st, objs, blocks, reloc>>
          /\ l' = l + 1
     ELSE
     LET c    == lb.c
         exp  == SStep(st, lb)
         x    == st.s[c]
         faulted == lb.k > 0 /\ r.k = "exc" /\ r.what \in {"injected", "bad_alloc"}
         thrownByMove == faulted /\ "tm" \in DOMAIN ev /\ ev.tm
         exs  == {y \in SSlots : obs[y].ex}
         parts == {c} \cup ({lb.d} \ {0})
         \* observed elements in the set's own order: a SmallSet keeps its inline elements unsorted, so its
         \* iteration is compared AS A SET (sorted here with the comparator state the set was given)
         \* the comparator state the set reports; without a fault it must be the one the specification expects (after a
         \* failed copy assignment either the old or the new one is acceptable: basic guarantee)
         cmpOf(y) == CmpOf(obs[y].cm)
         cmpExp(y) == IF exp.st.s[y].ex THEN exp.st.s[y].cmp ELSE CmpOf(0)
         Canon(y) == IF SFlav[y] = "small" THEN SortSeq(obs[y].elems, LAMBDA a, b : Lt(cmpOf(y), a, b)) ELSE obs[y].elems
         ExpElems(y) == IF SFlav[y] = "small" THEN SortedOf(exp.st.s[y]) ELSE exp.st.s[y].elems
         \* ---- shape: size / empty consistent, strictly sorted (no equivalent duplicates)
         shapeFail ==
           IF \E y \in exs : obs[y].size # Len(obs[y].elems) \/ obs[y].empty # (obs[y].size = 0)
              THEN "size()/empty() inconsistent with the iteration"
           ELSE IF ~faulted /\ \E y \in exs : cmpOf(y) # cmpExp(y)
              THEN "the set does not hold the comparator object it was given"
           \* (a move operation that throws leaves moved-from elements behind: no order can be demanded on that call)
           ELSE IF ~thrownByMove /\ \E y \in exs : ~SortedBy(cmpOf(y), Canon(y))
              THEN "iteration not strictly increasing for the set's comparator (duplicate or misplaced element)"
           ELSE IF ~thrownByMove /\ \E y \in exs : SFlav[y] = "small" /\ obs[y].size > SN[y] /\ ~SortedBy(cmpOf(y), obs[y].elems)
              THEN "large SmallSet does not iterate in comparator order"
           ELSE ""
         \* ---- values
         freeClass(y) ==    \* insertion of a range: which of several equivalent NEW elements survives is free
           /\ Len(Canon(y)) = Len(ExpElems(y))
           /\ \A i \in 1..Len(Canon(y)) :
                LET o == Canon(y)[i] e == ExpElems(y)[i] IN
                /\ Equiv(cmpOf(y), o, e)
                /\ (o = e \/ (~Has(IF lb.op \in {"assignIlist", "assignVec"} THEN [x EXCEPT !.elems = <<>>] ELSE st.s[y], e)
                              /\ o \in SeqToSet(lb.vs)))
         ValsOK == /\ \A y \in SSlots : obs[y].ex = exp.st.s[y].ex
                   /\ \A y \in exs : IF y = c /\ lb.op \in RangeFreeOps THEN freeClass(y) ELSE Canon(y) = ExpElems(y)
         holder == CHOOSE y \in SSlots : obs[y].node.has
         nodeObs == IF \E y \in SSlots : obs[y].node.has
                    THEN [has |-> TRUE, v |-> obs[holder].node.v, t |-> STypeId[holder]] ELSE NoNode
         retOK == /\ r.k = exp.ret.k
                  /\ (r.k \in {"ins", "it", "val", "bool"} => r.i = exp.ret.i)
                  /\ (r.k = "ins" => r.b = exp.ret.b)
                  /\ (r.k = "run" => r.s = exp.ret.s)
         valueFail ==
           IF faulted
           THEN IF \E y \in SSlots : obs[y].ex # st.s[y].ex THEN "object came into existence although its constructor threw" ELSE ""
           ELSE IF ~ValsOK THEN "contents differ from std::set"
           ELSE IF nodeObs # exp.st.node THEN "node handle differs from std::set (an insert(node) that meets an equivalent element keeps its value)"
           ELSE IF ~retOK THEN "return value differs from std::set"
           ELSE ""
         owner == (IF faulted THEN {"C09"} ELSE flavOwner(c))
                  \cup (IF ~faulted /\ lb.op \in HintOps /\ SFlav[c] = "flat" THEN {"C12"} ELSE {})
                  \cup (IF ~faulted /\ SFlav[c] = "small" /\ lb.op \in IterOps THEN {"C11"} ELSE {})
                  \cup (IF \E y \in parts : reloc[y] \/ lb.op = "relocate" THEN {"C14"} ELSE {})
         \* ---- C02
         L2 == IF Len(ev.prims) > BatchAt THEN BatchLedger(objs, ev.prims) ELSE FoldLeft(ApplyPrim, LedObj0(objs), ev.prims)
         nodeIds == {obs[y].node.id : y \in {z \in SSlots : obs[z].node.has}}
         visIds == UNION {SeqToSet(obs[y].ids) : y \in exs} \cup nodeIds
         nVis == FoldLeft(LAMBDA a, y : a + (IF obs[y].ex THEN obs[y].size ELSE 0), 0, [i \in 1..KS |-> i]) + Cardinality(nodeIds)
         c02Fail ==
           IF Cat = "TC" THEN ""
           ELSE IF L2.bad # <<>> THEN L2.bad[1][1]
           \* (a move operation that throws inevitably leaves moved-from elements behind: waived on that call only)
           ELSE IF ~thrownByMove /\ \E y \in exs : \E i \in 1..Len(obs[y].mv) : obs[y].mv[i] # 0 THEN "moved-from element visible"
           ELSE IF Cardinality(visIds) # nVis THEN "same object visible twice (bitwise duplicate)"
           ELSE IF DOMAIN L2.objs # visIds
                THEN IF visIds \ DOMAIN L2.objs # {} THEN "visible element is not alive"
                     ELSE "element object leaked (alive but owned by no container)"
           ELSE ""
         objs2 == IF Cat = "TC" THEN <<>> ELSE IF c02Fail = "" THEN L2.objs ELSE [id \in visIds |-> 0]
         \* ---- C06 (the buffers of a set are not observable: consistency of every event, nothing left at the end)
         B2 == FoldLeft(LAMBDA L, a : ApplyAlloc(0..100000, L, a), LedBlk0(blocks), ev.allocs)
         c06Fail == IF ~AllocInstrumented THEN "" ELSE IF B2.bad # <<>> THEN B2.bad[1][1] ELSE ""
         \* ---- C05: a SmallSet that never held more than N elements allocates nothing
         nReq == NAllocReq(ev.allocs)
         allPristine == \A y \in parts : /\ SFlav[y] = "small"
                                          /\ (st.s[y].ex => st.s[y].pri)
                                          /\ (exp.st.s[y].ex => exp.st.s[y].pri)
         c05Fail ==
           IF allPristine /\ ~faulted /\ nReq > 0 THEN "allocator request by a SmallSet that never held more than N elements"
           ELSE IF allPristine /\ ~faulted /\ r.k # "exc" /\ Cfg.countsGlobal /\ ev.gm > 0
                THEN "dynamic memory requested by a SmallSet that never held more than N elements"
           ELSE ""
         \* ---- C19: comparator calls
         n0 == Len(x.elems)
         correctHint == \/ lb.op \in {"insertHint", "insertHintRv", "emplaceHint"} /\ lb.h = LbIdx(x, lb.v) - 1
                        \/ lb.op = "insertNodeHint" /\ st.node.has /\ lb.h = LbIdx(x, st.node.v) - 1
         c19Fail ==
           IF faulted \/ IsRefS(c) THEN ""
           ELSE IF SFlav[c] = "flat" /\ lb.op \in LookupOps /\ ev.cmps > 2 * CeilLog2(n0 + 1) + 4
                THEN "more than 2*ceil(log2(n+1))+4 comparator calls for a lookup / keyed insertion / erasure"
           ELSE IF SFlav[c] = "flat" /\ correctHint /\ ev.cmps > 8
                THEN "insertion with a correct hint is not search free (more than 8 comparator calls)"
           ELSE IF SFlav[c] = "small" /\ x.pri /\ lb.op \in SLookups \cup SLookupsK /\ ev.cmps > 2 * SN[c] + 2
                THEN "more than 2N+2 comparator calls for a lookup in an inline SmallSet"
           ELSE ""
         \* ---- C20 (a): const operations leave the representation of the set they read unchanged
         ConstOps == (SObservers \ {"nodeValue"}) \cup {"ctorCopy"}
         c20Fail ==
           IF "h0" \notin DOMAIN ev THEN ""
           ELSE IF (lb.op \in ConstOps \/ (lb.op = "assignCopy" /\ lb.c # lb.d)) /\ ~faulted /\ ev.h0 # ev.h1
                THEN "a const operation changed the representation of the set it reads"
           ELSE ""
         \* (a hinted insertion that breaks the order of the set is also a failure of "a hint is only a hint", an iterator
         \*  based operation of a SmallSet that does one of C11)
         v0 == IF shapeFail # "" THEN AddViol(viol, (IF faulted THEN {"C09"} ELSE {}) \cup UNION {flavOwner(y) : y \in parts}
                                                   \cup (IF ~faulted /\ lb.op \in HintOps /\ SFlav[c] = "flat" THEN {"C12"} ELSE {})
                                                   \cup (IF ~faulted /\ SFlav[c] = "small" /\ lb.op \in IterOps THEN {"C11"} ELSE {}), l, shapeFail) ELSE viol
         v1 == IF valueFail # "" /\ shapeFail = "" THEN AddViol(v0, owner, l, valueFail) ELSE v0
         v2 == IF c02Fail # "" THEN AddViol(v1, {"C02"} \cup (IF faulted THEN {"C09"} ELSE {}) \cup
                                            (IF \E y \in parts : reloc[y] THEN {"C14"} ELSE {}), l, c02Fail) ELSE v1
         v3 == IF c06Fail # "" THEN AddViol(v2, {"C06"} \cup (IF faulted THEN {"C09"} ELSE {}), l, c06Fail) ELSE v2
         v4 == IF c05Fail # "" THEN AddViol(v3, {"C05"}, l, c05Fail) ELSE v3
         v5a == IF c19Fail # "" THEN AddViol(v4, {"C19"}, l, c19Fail) ELSE v4
         v5 == IF c20Fail # "" THEN AddViol(v5a, {"C20"}, l, c20Fail) ELSE v5a
         \* ---- design drift (diagnostic): the iteration order of an inline SmallSet differs from the design's prediction
         drift == ~faulted /\ valueFail = "" /\ \E y \in exs : SFlav[y] = "small" /\ exp.st.s[y].ex /\ obs[y].elems # exp.st.s[y].elems
         \* ---- next state: adopt the observation (elements in canonical order), keep the contract's ghosts
         st2 == [s |-> [y \in SSlots |->
                         IF obs[y].ex
                         THEN [ex |-> TRUE, elems |-> obs[y].elems, cmp |-> cmpOf(y),
                               pri |-> IF faulted THEN st.s[y].ex /\ st.s[y].pri /\ exp.st.s[y].pri ELSE exp.st.s[y].pri,
                               \* the inline / large state of a SmallSet is not observable: the design's value is kept
                               \* unless the observation contradicts it
                               large |-> SFlav[y] = "small" /\ obs[y].size > 0 /\ (obs[y].size > SN[y] \/ exp.st.s[y].large)]
                         ELSE SDead],
                 node |-> nodeObs]
     IN
     /\ viol' = v5
     /\ st' = st2
     /\ objs' = objs2
     /\ blocks' = IF AllocInstrumented THEN B2.blocks ELSE <<>>
     /\ reloc' = [y \in SSlots |-> obs[y].ex /\ ((st.s[y].ex /\ reloc[y]) \/ (y = c /\ lb.op = "relocate"))]
     /\ stats' = [stats EXCEPT !.ops = @ + 1,
                               !.faults = @ + (IF faulted THEN 1 ELSE 0),
                               !.drift = @ + (IF drift THEN 1 ELSE 0),
                               !.driftAt = IF drift /\ Len(@) < 5 THEN Append(@, l) ELSE @,
                               !.hints = @ + (IF lb.op \in HintOps THEN 1 ELSE 0),
                               !.lookups = @ + (IF lb.op \in LookupOps THEN 1 ELSE 0),
                               !.rangeFree = @ + (IF lb.op \in RangeFreeOps THEN 1 ELSE 0),
                               !.iterOps = @ + (IF lb.op \in IterOps THEN 1 ELSE 0),
                               !.pristineOps = @ + (IF allPristine THEN 1 ELSE 0),
                               !.prims = @ + Len(ev.prims),
                               !.allocEvents = @ + Len(ev.allocs),
                               !.cmps = @ + ev.cmps,
                               !.maxLookupCmps = IF lb.op \in LookupOps /\ SFlav[c] = "flat" /\ ev.cmps > @ THEN ev.cmps ELSE @,
                               !.maxHintCmps = IF correctHint /\ SFlav[c] = "flat" /\ ev.cmps > @ THEN ev.cmps ELSE @,
                               !.nullDealloc = @ + B2.nullDealloc,
                               !.constOps = @ + (IF "h0" \in DOMAIN ev /\ lb.op \in ConstOps \cup {"assignCopy"} THEN 1 ELSE 0)]
     /\ l' = l + 1

TReset ==
  /\ l <= Len(TraceLog)
  /\ TraceLog[l].e = "reset"
  /\ viol' = (LET v1 == IF Cat # "TC" /\ objs # <<>> THEN AddViol(viol, {"C02"}, l, "element objects alive after all containers are gone") ELSE viol
              IN IF AllocInstrumented /\ blocks # <<>> THEN AddViol(v1, {"C06"}, l, "blocks outstanding after all containers are gone") ELSE v1)
  /\ st' = SInit
  /\ objs' = <<>>
  /\ blocks' = <<>>
  /\ reloc' = [c \in SSlots |-> FALSE]
  /\ stats' = [stats EXCEPT !.execs = @ + 1]
  /\ l' = l + 1

TAbort ==
  /\ l <= Len(TraceLog)
  /\ TraceLog[l].e = "abort"
  /\ st' = SInit
  /\ objs' = <<>>
  /\ blocks' = <<>>
  /\ reloc' = [c \in SSlots |-> FALSE]
  /\ stats' = [stats EXCEPT !.execs = @ + 1]
  /\ UNCHANGED viol
  /\ l' = l + 1

TNext == TOp \/ TReset \/ TAbort
TSpec == TInit /\ [][TNext]_vars

Verdict == [consumed |-> TLCGet("stats").diameter, lines |-> Len(TraceLog), name |-> Cfg.name]
TraceAccepted ==
  /\ PrintT(<<"VERDICT", ToJson(Verdict)>>)
  /\ TLCGet("stats").diameter = Len(TraceLog)
AtEnd == l = Len(TraceLog) + 1
Report == AtEnd => PrintT(<<"REPORT", ToJson([viol |-> viol, stats |-> stats])>>)
=============================================================================
