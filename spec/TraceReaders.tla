---------------------------- MODULE TraceReaders ----------------------------
(* C20 (b) binding: results recorded by concurrent reader threads (per-thread sequence numbers) on shared const     *)
(* containers are checked against the value the specification gives on the unchanged state: every thread must      *)
(* obtain, for every const operation, what a sequential execution obtains.                                          *)
EXTENDS SeqOps, TLC, Json, IOUtils, SequencesExt

TraceLog == ndJsonDeserialize(IOEnv.TRACE)
Cfg == TraceLog[1]
VARIABLES l, viol, stats
vars == <<l, viol, stats>>
TInit == l = 2 /\ viol = <<>> /\ stats = [ops |-> 0, threads |-> 0]

Elems(k) == Cfg.containers[k].elems          \* iteration order of the shared container k (constant)
SumOf(s) == FoldLeft(LAMBDA a, x : a + x, 0, s)
Expected(ev) ==
  LET e == Elems(ev.k) IN
  CASE ev.op = "size"     -> Len(e)
    [] ev.op = "sum"      -> SumOf(e)                     \* a walk begin()..end()
    [] ev.op = "rsum"     -> SumOf(e)                     \* a walk rbegin()..rend()
    [] ev.op = "index"    -> e[ev.arg + 1]
    [] ev.op = "at"       -> IF ev.arg < Len(e) THEN e[ev.arg + 1] ELSE 0 - 1      \* -1: std::out_of_range
    [] ev.op = "contains" -> IF \E i \in 1..Len(e) : e[i] = ev.arg THEN 1 ELSE 0
    [] ev.op = "find"     -> IF \E i \in 1..Len(e) : e[i] = ev.arg THEN ev.arg ELSE 0 - 1
    [] ev.op = "eqself"   -> 1                            \* comparison with itself
    [] ev.op = "copysum"  -> SumOf(e)                     \* copy-construction from it, then a walk of the copy
    \* (sets compare as sets: an inline SmallSet iterates in insertion order)
    [] ev.op = "eqother"  -> IF Cfg.containers[ev.k].set
                             THEN (IF {e[i] : i \in 1..Len(e)} = {Elems(ev.arg)[i] : i \in 1..Len(Elems(ev.arg))} THEN 1 ELSE 0)
                             ELSE (IF e = Elems(ev.arg) THEN 1 ELSE 0)
    [] OTHER -> 0 - 99
TStep ==
  /\ l <= Len(TraceLog)
  /\ LET ev == TraceLog[l] IN
     /\ viol' = IF ev.res # Expected(ev) /\ Len(viol) < 40
                THEN Append(viol, [p |-> "C20", l |-> l, why |-> "a reader thread obtained a result that differs from the sequential one"])
                ELSE viol
     /\ stats' = [stats EXCEPT !.ops = @ + 1, !.threads = IF ev.t > @ THEN ev.t ELSE @]
  /\ l' = l + 1
TSpec == TInit /\ [][TStep]_vars
Verdict == [consumed |-> TLCGet("stats").diameter, lines |-> Len(TraceLog), name |-> Cfg.name]
TraceAccepted == /\ PrintT(<<"VERDICT", ToJson(Verdict)>>)
                 /\ TLCGet("stats").diameter = Len(TraceLog)
Report == (l = Len(TraceLog) + 1) => PrintT(<<"REPORT", ToJson([viol |-> viol, stats |-> stats])>>)
=============================================================================
