---------------------------- MODULE TraceMemAlgo ----------------------------
(* Trace validation for C15: every recorded call of an amc:: memory algorithm is compared with MemAlgo!MemExpect.   *)
(* Liveness of an object is decided by the ledger folded over the recorded life-cycle events (an object constructed  *)
(* and not destroyed is alive), never by the bytes found in a slot.                                                  *)
EXTENDS MemAlgo, TLC, Json, IOUtils, SequencesExt

TraceLog == ndJsonDeserialize(IOEnv.TRACE)
Cfg == TraceLog[1]
RawMark == 0 - 572662307       \* 0xDDDDDDDD: what an untouched slot of trivially copyable elements reads as

VARIABLES l, viol, stats
vars == <<l, viol, stats>>
TInit == l = 2 /\ viol = <<>> /\ stats = [ops |-> 0, throws |-> 0, byteMoves |-> 0]

\* ledger: set of ids constructed and not destroyed; bad: an event on an object outside its lifetime
Fold(evs) ==
  FoldLeft(LAMBDA L, e :
             CASE e[1] = "ctor" -> [L EXCEPT !.live = @ \cup {e[2]}]
               [] e[1] \in {"cctor", "mctor"} ->
                    IF e[3] \notin L.live THEN [L EXCEPT !.bad = TRUE] ELSE [L EXCEPT !.live = @ \cup {e[2]}]
               [] e[1] \in {"casg", "masg"} -> IF e[2] \notin L.live \/ e[3] \notin L.live THEN [L EXCEPT !.bad = TRUE] ELSE L
               [] e[1] = "dtor" -> IF e[2] \notin L.live THEN [L EXCEPT !.bad = TRUE] ELSE [L EXCEPT !.live = @ \ {e[2]}]
               [] OTHER -> [L EXCEPT !.bad = TRUE],
           [live |-> {}, bad |-> FALSE], evs)

TStep ==
  /\ l <= Len(TraceLog)
  /\ LET ev == TraceLog[l]
         lb == ev.lbl
         exp == MemExpect(lb)
         tc == Plain(lb.cat)
         L == Fold(ev.events)
         dstIds == {ev.dst[i].id : i \in 1..Len(ev.dst)} \ {0}
         \* is the object whose bytes are seen in slot s alive
         Alive(s) == s.id # 0 /\ s.id \in L.live
         unspecifiedValue == tc /\ lb.a \in {"uninitialized_default_construct", "uninitialized_default_construct_n"}
         SlotOK(where, i, s, e) ==
           IF tc
           THEN CASE e.s = "live" -> unspecifiedValue \/ s.v = e.v
                  [] e.s = "raw" -> where = "src" \/ s.v = RawMark
                  [] OTHER -> TRUE
           ELSE CASE e.s = "live" -> Alive(s) /\ s.v = e.v /\ s.mv = 0
                  [] e.s = "moved" -> Alive(s) /\ s.mv = 1
                  [] e.s = "raw" -> ~Alive(s)
                  \* relocated away: destroyed, or its bytes copied to a destination slot (the same object lives there)
                  [] e.s = "gone" -> ~Alive(s) \/ s.id \in dstIds
         fail ==
           IF ev.unsupported THEN "label not executable"
           ELSE IF ev.exc # exp.exc THEN "exception behaviour differs from the standard algorithm"
           ELSE IF ~exp.exc /\ ev.ret # exp.ret THEN "returned iterator differs"
           ELSE IF ~exp.exc /\ ev.ret2 >= 0 /\ ev.ret2 # exp.ret2 THEN "returned source iterator differs"
           ELSE IF Len(ev.src) # Len(exp.src) \/ Len(ev.dst) # Len(exp.dst) THEN "malformed observation"
           ELSE IF ~tc /\ L.bad THEN "object used, assigned or destroyed outside its lifetime"
           \* (every destination of these algorithms is raw storage: nothing may be ASSIGNED there)
           ELSE IF lb.cat = "TDC" /\ \E i \in 1..Len(ev.events) : ev.events[i][1] \in {"casg", "masg"}
                THEN "assignment operator run on raw storage"
           ELSE IF \E i \in 1..Len(exp.dst) : ~SlotOK("dst", i, ev.dst[i], exp.dst[i])
                THEN IF exp.exc THEN "objects created before the exception were not all destroyed (or something else was touched)"
                     ELSE "destination objects differ from the standard algorithm"
           ELSE IF \E i \in 1..Len(exp.src) : ~SlotOK("src", i, ev.src[i], exp.src[i])
                THEN IF exp.exc /\ lb.a \in RelocAlgos THEN "a source of a failed relocation did not stay alive" ELSE "source objects differ from the standard algorithm"
           ELSE IF ~tc /\ Cardinality(L.live) # Cardinality({i \in 1..Len(exp.src) : exp.src[i].s \in {"live", "moved"}})
                                                   + Cardinality({i \in 1..Len(exp.dst) : exp.dst[i].s = "live"})
                THEN "number of objects alive after the call differs (leak or double destruction)"
           ELSE ""
     IN /\ viol' = IF fail # "" /\ Len(viol) < 40 THEN Append(viol, [p |-> IF fail = "label not executable" THEN "MODEL" ELSE "C15", l |-> l, why |-> fail]) ELSE viol
        /\ stats' = [stats EXCEPT !.ops = @ + 1, !.throws = @ + (IF ev.exc THEN 1 ELSE 0),
                                  !.byteMoves = @ + (IF ~tc /\ lb.a \in RelocAlgos \cup {"relocate_at"} /\ ~ev.exc /\
                                                        Cardinality({i \in 1..Len(ev.events) : ev.events[i][1] = "mctor"}) = 0 /\ lb.n > 0 THEN 1 ELSE 0)]
        /\ l' = l + 1
TSpec == TInit /\ [][TStep]_vars
Verdict == [consumed |-> TLCGet("stats").diameter, lines |-> Len(TraceLog), name |-> Cfg.name]
TraceAccepted == /\ PrintT(<<"VERDICT", ToJson(Verdict)>>)
                 /\ TLCGet("stats").diameter = Len(TraceLog)
Report == (l = Len(TraceLog) + 1) => PrintT(<<"REPORT", ToJson([viol |-> viol, stats |-> stats])>>)
=============================================================================
