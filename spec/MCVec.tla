------------------------------- MODULE MCVec -------------------------------
(* Model-checking wrapper for Vec: explores every reachable pool state of a small scope, every legal label in     *)
(* every state, checks the design invariants, and (with ACTION_CONSTRAINT Export) prints the whole transition      *)
(* relation as JSON so that covering walks can be replayed on the implementation.                                  *)
EXTENDS Vec, TLC, Json

CONSTANTS Vals, MaxLen, MaxCnt, Its, RLens, Ops, Alias, Near

VARIABLES st, lbl, ret
vars == <<st, lbl, ret>>

Init == /\ st = InitState
        /\ lbl = Lbl("init", 0, 0, 0, 0, 0, 0, "", <<>>)
        /\ ret = NoRet

Next == \E lb \in LabelsOf(st, Ops, Vals, MaxLen, MaxCnt, Its, RLens, Alias, Near) :
          LET r == Step(st, lb) IN
          /\ st' = r.st
          /\ lbl' = lb
          /\ ret' = r.ret

Spec == Init /\ [][Next]_vars

\* random behaviours of a larger scope (tlc -simulate): ONE randomly chosen legal label per step, so that the cost of a
\* step does not grow with the number of labels (TLC would otherwise compute every successor before choosing)
NextRandom ==
  \* constructors are offered less often than operations on existing containers, destruction rarely
  \E c \in {RandomElement(Slots)} :
  \E o \in {RandomElement(IF st[c].ex
                           THEN (Ops \ {"destroy"}) \cup (IF RandomElement(1..12) = 1 THEN {"destroy"} \cap Ops ELSE {})
                           ELSE Ops \cap (CtorOps1 \cup {"ctorCopy", "ctorMove", "ctorFromVector"}))} :
  LET S == OpLabels(st, c, o, Vals, MaxLen, MaxCnt, Its, RLens, Alias, Near) IN
  IF S = {} THEN UNCHANGED vars
  ELSE \E lb \in {RandomElement(S)} :
         LET r == Step(st, lb) IN
         /\ st' = r.st
         /\ lbl' = lb
         /\ ret' = r.ret
SpecRandom == Init /\ [][NextRandom]_vars

\* the label and the return value are not part of the fingerprint: a state is a pool state
View == st

\* one line per generated transition (the walker only needs the two states and the label)
Export == PrintT(<<"T", ToJson([f |-> st, l |-> lbl', r |-> ret', t |-> st'])>>)
\* simulation: stuttering steps (no label chosen) are not printed
ExportSim == (lbl' # lbl \/ st' # st) => Export

Inv == /\ TypeOK(st)
       /\ SizeLeCap(st)
       /\ InlineMeansN(st)
       /\ PristineImpliesInline(st)
       /\ \A c \in Slots : Len(st[c].vals) <= MaxLen \/ Len(st[c].vals) <= Limit(c)

StepProps == [][CapMonotoneStep(st, lbl', st') /\ ReserveStep(st, lbl', st')]_vars
=============================================================================
