---------------------------- MODULE SmallVecWords ----------------------------
(* DESIGN model of SmallVectorBase's two-word encoding (vectorcommon.hpp).                                         *)
(*                                                                                                                 *)
(* A SmallVector keeps two words of its size_type, here w1 (_capa) and w2 (_size), whose roles are swapped while    *)
(* the elements are inline:                                                                                         *)
(*      isSmall  == w1 < w2                                                                                         *)
(*      size     == IF isSmall THEN w1 ELSE w2                                                                      *)
(*      capacity == IF isSmall /\ w2 # KMax THEN w2 ELSE w1      (KMax = numeric_limits<size_type>::max(): the      *)
(*                                                                 "inline and exactly full" marker)               *)
(* Every member function that touches the words is transcribed (incrSize, decrSize, setSize, grow, shrink_impl /    *)
(* resetToSmall, move_construct from a SmallVector and from an amc::vector, move_assign, swap_impl, the size        *)
(* exchange of swap2_impl) and run next to the ABSTRACT design state (size, capacity, inline) that Vec.tla uses.    *)
(* TLC checks the refinement DecodeOK on every reachable state: decoding the words always gives the abstract state, *)
(* so the capacity / inline part of Vec.tla is what this encoding implements.  Dev switches the pinned tree's       *)
(* defects back on (anti-vacuity: TLC then produces the counterexample of F01 / of F07's raw word exchange).         *)
EXTENDS Integers

CONSTANTS N,        \* inline capacity (1 .. KMax - 1)
          KMax,     \* maximum of the size_type
          Dev       \* subset of {"F01", "F07"}: defects of the pinned tree switched back on

VARIABLES w1, w2,         \* the words, per vector
          sz, cp, inl     \* the abstract design state, per vector
vars == <<w1, w2, sz, cp, inl>>
V == {1, 2}

IsSmall(c) == w1[c] < w2[c]
Size(c) == IF IsSmall(c) THEN w1[c] ELSE w2[c]
Cap(c) == IF IsSmall(c) /\ w2[c] # KMax THEN w2[c] ELSE w1[c]
Max(a, b) == IF a > b THEN a ELSE b
Min(a, b) == IF a < b THEN a ELSE b
NextCap(old, need, exact) == IF exact THEN need ELSE Min(Max((3 * old + 1) \div 2, need), KMax)

\* SmallVectorBase::setSize on words <<a, b>>
SetSizeW(a, b, s) ==
  IF a < b THEN (IF b = KMax THEN (IF s # a THEN <<s, a>> ELSE <<s, b>>)
                 ELSE IF s = b THEN <<s, KMax>> ELSE <<s, b>>)
  ELSE <<a, s>>
\* SmallVectorBase::grow (need > capacity)
GrowW(c, need, exact) ==
  IF IsSmall(c) THEN LET old == IF w2[c] = KMax THEN w1[c] ELSE w2[c] IN <<NextCap(old, need, exact), w1[c]>>
  ELSE <<NextCap(w1[c], need, exact), w2[c]>>

Init == /\ w1 = [c \in V |-> 0] /\ w2 = [c \in V |-> N]
        /\ sz = [c \in V |-> 0] /\ cp = [c \in V |-> N] /\ inl = [c \in V |-> TRUE]

Set(c, p) == w1' = [w1 EXCEPT ![c] = p[1]] /\ w2' = [w2 EXCEPT ![c] = p[2]]

\* push_back / emplace_back: adjustCapacity (grow when full) then incrSize
Push(c) ==
  /\ sz[c] < KMax - 1
  /\ LET g == IF Size(c) = Cap(c) THEN GrowW(c, Size(c) + 1, FALSE) ELSE <<w1[c], w2[c]>>
         small == g[1] < g[2]
     IN IF small THEN Set(c, IF g[1] + 1 = g[2] THEN <<g[1] + 1, KMax>> ELSE <<g[1] + 1, g[2]>>)     \* incrSize, small
        ELSE Set(c, <<g[1], g[2] + 1>>)                                                             \* incrSize, large
  /\ sz' = [sz EXCEPT ![c] = @ + 1]
  /\ IF sz[c] = cp[c] THEN cp' = [cp EXCEPT ![c] = NextCap(cp[c], sz[c] + 1, FALSE)] /\ inl' = [inl EXCEPT ![c] = FALSE]
     ELSE UNCHANGED <<cp, inl>>
\* pop_back: decrSize
Pop(c) ==
  /\ sz[c] > 0
  /\ IF IsSmall(c) THEN Set(c, IF w2[c] = KMax THEN <<w1[c] - 1, w1[c]>> ELSE <<w1[c] - 1, w2[c]>>)
     ELSE Set(c, <<w1[c], w2[c] - 1>>)
  /\ sz' = [sz EXCEPT ![c] = @ - 1] /\ UNCHANGED <<cp, inl>>
\* resize / assign / erase / clear within the capacity: setSize
SetSz(c, s) ==
  /\ s \in 0..cp[c]
  /\ Set(c, SetSizeW(w1[c], w2[c], s))
  /\ sz' = [sz EXCEPT ![c] = s] /\ UNCHANGED <<cp, inl>>
\* reserve(n), n > capacity: grow exact
Reserve(c, n) ==
  /\ n > cp[c] /\ n <= KMax
  /\ Set(c, GrowW(c, n, TRUE))
  /\ cp' = [cp EXCEPT ![c] = n] /\ inl' = [inl EXCEPT ![c] = FALSE] /\ UNCHANGED sz
\* shrink_to_fit: resetToSmall when the elements fit inline, else shrink to the size
Shrink(c) ==
  /\ ~IsSmall(c)
  /\ IF w2[c] <= N THEN /\ Set(c, <<w2[c], IF w2[c] = N THEN KMax ELSE N>>)
                        /\ cp' = [cp EXCEPT ![c] = N] /\ inl' = [inl EXCEPT ![c] = TRUE]
     ELSE /\ Set(c, <<w2[c], w2[c]>>) /\ cp' = [cp EXCEPT ![c] = sz[c]] /\ UNCHANGED inl
  /\ UNCHANGED sz
\* SmallVector(amc::vector&&) with a buffer of capacity k holding s elements: the buffer is always stolen, so a
\* heap state with capacity BELOW N exists (the state F02 forgot)
Steal(c, k, s) ==
  /\ sz[c] = 0 /\ inl[c] /\ k >= 1 /\ s <= k
  /\ Set(c, <<k, s>>)
  /\ sz' = [sz EXCEPT ![c] = s] /\ cp' = [cp EXCEPT ![c] = k] /\ inl' = [inl EXCEPT ![c] = FALSE]
\* a = std::move(b)   (move_assign, as repaired by the F01+F02 fix; Dev "F01" restores the pinned code)
MoveAssign(a, b) ==
  /\ a # b
  /\ IF IsSmall(b)
     THEN LET release == ~IsSmall(a) /\ w1[a] < w1[b]          \* heap buffer too small for b's elements: release it
              a1 == IF release /\ "F01" \notin Dev THEN <<0, N>> ELSE <<w1[a], w2[a]>>
          IN /\ ("F01" \in Dev => sz[b] <= cp[a])
             /\ IF "F01" \notin Dev
                THEN LET ra == SetSizeW(a1[1], a1[2], w1[b])
                         rb == SetSizeW(w1[b], w2[b], 0)
                     IN w1' = [w1 EXCEPT ![a] = ra[1], ![b] = rb[1]] /\ w2' = [w2 EXCEPT ![a] = ra[2], ![b] = rb[2]]
                ELSE \* pinned: msize() = exchange(o._capa, 0) after patching the marker by hand
                     LET a2 == IF w2[b] = KMax /\ IsSmall(a) THEN KMax ELSE w2[a]
                         b2 == IF w2[b] = KMax THEN N ELSE w2[b]
                         aSmall == w1[a] < a2
                     IN IF aSmall THEN w1' = [w1 EXCEPT ![a] = w1[b], ![b] = 0] /\ w2' = [w2 EXCEPT ![a] = a2, ![b] = b2]
                        ELSE w1' = [w1 EXCEPT ![b] = 0] /\ w2' = [w2 EXCEPT ![a] = w1[b], ![b] = b2]
             /\ sz' = [sz EXCEPT ![a] = sz[b], ![b] = 0]
             /\ IF release /\ "F01" \notin Dev THEN cp' = [cp EXCEPT ![a] = N] /\ inl' = [inl EXCEPT ![a] = TRUE]
                ELSE UNCHANGED <<cp, inl>>
     ELSE /\ w1' = [w1 EXCEPT ![a] = w1[b], ![b] = 0] /\ w2' = [w2 EXCEPT ![a] = w2[b], ![b] = N]
          /\ sz' = [sz EXCEPT ![a] = sz[b], ![b] = 0] /\ cp' = [cp EXCEPT ![a] = cp[b], ![b] = N]
          /\ inl' = [inl EXCEPT ![a] = FALSE, ![b] = TRUE]
\* a.swap(b): swap_impl exchanges both words (and the buffers / elements)
Swap(a, b) ==
  /\ a < b
  /\ w1' = [w1 EXCEPT ![a] = w1[b], ![b] = w1[a]] /\ w2' = [w2 EXCEPT ![a] = w2[b], ![b] = w2[a]]
  /\ sz' = [sz EXCEPT ![a] = sz[b], ![b] = sz[a]] /\ cp' = [cp EXCEPT ![a] = cp[b], ![b] = cp[a]]
  /\ inl' = [inl EXCEPT ![a] = inl[b], ![b] = inl[a]]
\* swap2 on its deep-swap path (each keeps its storage, sizes exchanged; both sizes fit both capacities):
\* repaired code goes through setSize; Dev "F07" exchanges the raw msize() words
Swap2Deep(a, b) ==
  /\ a < b /\ sz[a] <= cp[b] /\ sz[b] <= cp[a]
  /\ IF "F07" \notin Dev
     THEN LET ra == SetSizeW(w1[a], w2[a], Size(b))
              rb == SetSizeW(w1[b], w2[b], Size(a))
          IN w1' = [w1 EXCEPT ![a] = ra[1], ![b] = rb[1]] /\ w2' = [w2 EXCEPT ![a] = ra[2], ![b] = rb[2]]
     ELSE \* msize() is w1 when small, w2 when large: exchange those two words
          LET ma == IF IsSmall(a) THEN w1[a] ELSE w2[a]
              mb == IF IsSmall(b) THEN w1[b] ELSE w2[b]
          IN /\ w1' = [w1 EXCEPT ![a] = IF IsSmall(a) THEN mb ELSE @, ![b] = IF IsSmall(b) THEN ma ELSE @]
             /\ w2' = [w2 EXCEPT ![a] = IF IsSmall(a) THEN @ ELSE mb, ![b] = IF IsSmall(b) THEN @ ELSE ma]
  /\ sz' = [sz EXCEPT ![a] = sz[b], ![b] = sz[a]] /\ UNCHANGED <<cp, inl>>

Next == \E c \in V : \/ Push(c) \/ Pop(c) \/ Shrink(c)
                     \/ \E s \in 0..(N + 3) : SetSz(c, s)
                     \/ \E n \in (N + 1)..(N + 3) : Reserve(c, n)
                     \/ \E k \in 1..(N + 2) : \E s \in 0..k : Steal(c, k, s)
                     \/ \E b \in V : MoveAssign(c, b) \/ Swap(c, b) \/ Swap2Deep(c, b)
Spec == Init /\ [][Next]_vars

\* the refinement: the words always decode to the abstract design state
DecodeOK == \A c \in V : Size(c) = sz[c] /\ Cap(c) = cp[c] /\ IsSmall(c) = inl[c]
\* and the abstract state satisfies the capacity contract
Contract == \A c \in V : sz[c] <= cp[c] /\ (inl[c] => cp[c] = N)
Inv == DecodeOK /\ Contract
Bound == \A c \in V : sz[c] <= N + 4 /\ cp[c] <= KMax
=============================================================================
