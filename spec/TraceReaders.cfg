SPECIFICATION TSpec
INVARIANT Report
POSTCONDITION TraceAccepted
CHECK_DEADLOCK FALSE
