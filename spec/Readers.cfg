SPECIFICATION Spec
CONSTANTS
 Shared <- MCShared
 NReaders = 3
 WriterSteps = 2
INVARIANT PrefixInv
INVARIANT DoneInv
CHECK_DEADLOCK FALSE
