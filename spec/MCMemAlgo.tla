------------------------------ MODULE MCMemAlgo ------------------------------
(* TLC enumerates every label of the scope (one transition each) and checks sanity properties of the expectation;   *)
(* the exported labels are executed on the real amc:: functions under every language standard.                       *)
EXTENDS MemAlgo, TLC, Json
CONSTANT MaxN
VARIABLES lbl, done
vars == <<lbl, done>>
Init == lbl = MLbl("none", 0, "ptr", "ptr", "TC", 0) /\ done = FALSE
Next == /\ ~done
        /\ \E lb \in MemLabels(MaxN) : lbl' = lb
        /\ done' = TRUE
Spec == Init /\ [][Next]_vars
Export == PrintT(<<"T", ToJson([f |-> [d |-> done], l |-> lbl', t |-> [d |-> done']])>>)
\* nothing is created out of nothing, nothing is left half done
Sane ==
  done =>
    LET e == MemExpect(lbl)
        nLive(s) == Cardinality({i \in DOMAIN s : s[i].s \in {"live", "moved"}})
    IN /\ (e.exc => nLive(e.dst) = 0)                                         \* clean-up on throw
       /\ (e.exc /\ lbl.a \in RelocAlgos => nLive(e.src) = lbl.n)             \* sources of a relocate stay alive
       /\ (~e.exc /\ lbl.a \in RelocAlgos \cup {"relocate_at"} => nLive(e.src) + nLive(e.dst) = lbl.n)
       /\ Len(e.src) = lbl.n
=============================================================================
