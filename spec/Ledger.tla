------------------------------- MODULE Ledger -------------------------------
(* The two ledgers shared by the trace specifications:                                                              *)
(*   C02: element objects (identity -> address token) folded over the life-cycle events of a call                   *)
(*   C06: allocator blocks (token -> size in bytes) folded over the allocator events of a call                      *)
(* (TraceVec.tla carries its own copy of these definitions; they are kept identical.)                               *)
EXTENDS Naturals, Sequences, FiniteSets, SequencesExt

CONSTANTS Cat,     \* element category of the recording: "TC" | "TR" | "NTR"
          ESize    \* sizeof(element)

Put(f, k, v) == [x \in DOMAIN f \cup {k} |-> IF x = k THEN v ELSE f[x]]
Del(f, k) == [x \in DOMAIN f \ {k} |-> f[x]]
SeqToSet(s) == {s[i] : i \in 1..Len(s)}

(* C02 ledger: fold over the element life-cycle events of one call.  p = <<kind, id, tok, srcId, srcTok>>         *)
LedObj0(o) == [objs |-> o, bad |-> <<>>]
BadO(L, why, p) == [L EXCEPT !.bad = IF Len(@) < 4 THEN Append(@, <<why, p>>) ELSE @]
Known(L, id) == id \in DOMAIN L.objs
\* a non relocatable object may never be found at another address than the one it was constructed at
\* (token 0: address not tracked, after a call evaluated in batch mode)
AddrOK(L, id, tok) == Cat # "NTR" \/ L.objs[id] = tok \/ L.objs[id] = 0
Occupied(L, tok) == \E j \in DOMAIN L.objs : L.objs[j] = tok
ApplyPrim(L, p) ==
  LET kind == p[1] id == p[2] tok == p[3] sid == p[4] stok == p[5] IN
  CASE kind = "ctor" ->
         IF Known(L, id) THEN BadO(L, "ctor-id-reused", p)
         ELSE IF Cat = "NTR" /\ Occupied(L, tok) THEN BadO(L, "ctor-over-live-object", p)
         ELSE [L EXCEPT !.objs = Put(@, id, tok)]
    [] kind \in {"cctor", "mctor"} ->
         IF ~Known(L, sid) THEN BadO([L EXCEPT !.objs = Put(@, id, tok)], "read-outside-lifetime", p)
         ELSE IF ~AddrOK(L, sid, stok) THEN BadO([L EXCEPT !.objs = Put(@, id, tok)], "source-moved-by-bytes", p)
         ELSE IF Cat = "NTR" /\ Occupied(L, tok) THEN BadO(L, "ctor-over-live-object", p)
         ELSE [L EXCEPT !.objs = Put(Put(@, sid, stok), id, tok)]
    [] kind \in {"casg", "masg"} ->
         IF ~Known(L, id) THEN BadO(L, "assign-outside-lifetime", p)
         ELSE IF ~Known(L, sid) THEN BadO(L, "read-outside-lifetime", p)
         ELSE IF kind = "masg" /\ id = sid THEN BadO(L, "self-move-assignment", p)
         ELSE IF ~AddrOK(L, id, tok) \/ ~AddrOK(L, sid, stok) THEN BadO(L, "object-moved-by-bytes", p)
         ELSE [L EXCEPT !.objs = Put(Put(@, sid, stok), id, tok)]
    [] kind = "dtor" ->
         IF ~Known(L, id) THEN BadO(L, "destroyed-twice-or-never-alive", p)
         ELSE IF ~AddrOK(L, id, tok) THEN BadO([L EXCEPT !.objs = Del(@, id)], "object-moved-by-bytes", p)
         ELSE [L EXCEPT !.objs = Del(@, id)]
    [] kind = "masg_self_mf" -> IF ~Known(L, id) THEN BadO(L, "assign-outside-lifetime", p) ELSE L
    [] kind = "badself" -> BadO(L, "self-pointer-broken-by-byte-copy", p)
    [] kind = "badread" -> BadO(L, "single-pass-range-read-twice", p)
    [] OTHER -> BadO(L, "unknown-event", p)

(* Batch evaluation of the same rules for calls with very many life-cycle events (a vector of 250 elements being     *)
(* constructed or destroyed): the events are classified with set comprehensions instead of being folded one by one, *)
(* which loses only the order of events WITHIN the call (ids are never reused, so creation / destruction counts and *)
(* membership are still exact) and the per-object address (re-synchronised from the next observation).              *)
BatchAt == 32
BatchLedger(o, prims) ==
  LET n == Len(prims)
      ctorI == {i \in 1..n : prims[i][1] \in {"ctor", "cctor", "mctor"}}
      dtorI == {i \in 1..n : prims[i][1] = "dtor"}
      ctorIds == {prims[i][2] : i \in ctorI}
      dtorIds == {prims[i][2] : i \in dtorI}
      live0 == DOMAIN o
      reach == live0 \cup ctorIds
      bad ==
        IF Cardinality(ctorIds) # Cardinality(ctorI) \/ ctorIds \cap live0 # {} THEN <<<<"ctor-id-reused", <<>>>>>>
        ELSE IF Cardinality(dtorIds) # Cardinality(dtorI) \/ ~(dtorIds \subseteq reach) THEN <<<<"destroyed-twice-or-never-alive", <<>>>>>>
        ELSE IF \E i \in 1..n : prims[i][1] \in {"cctor", "mctor", "casg", "masg"} /\ prims[i][4] \notin reach
             THEN <<<<"read-outside-lifetime", <<>>>>>>
        ELSE IF \E i \in 1..n : prims[i][1] \in {"casg", "masg", "masg_self_mf"} /\ prims[i][2] \notin reach
             THEN <<<<"assign-outside-lifetime", <<>>>>>>
        ELSE IF \E i \in 1..n : prims[i][1] = "masg" /\ prims[i][2] = prims[i][4] THEN <<<<"self-move-assignment", <<>>>>>>
        ELSE IF \E i \in 1..n : prims[i][1] = "badself" THEN <<<<"self-pointer-broken-by-byte-copy", <<>>>>>>
        ELSE IF \E i \in 1..n : prims[i][1] = "badread" THEN <<<<"single-pass-range-read-twice", <<>>>>>>
        ELSE <<>>
  IN [objs |-> [id \in reach \ dtorIds |-> 0], bad |-> bad]

(* C06 ledger.  a = <<kind, tok1, tok2, n1, n2, live>>  (sizes in bytes) *)
LedBlk0(b) == [blocks |-> b, bad |-> <<>>, nullDealloc |-> 0]
\* a block is recorded with its size in bytes plus TagUnit times the tag of the allocator TYPE it came from (7th field of
\* an event, 0 when absent): it has to go back with the same size to an allocator of the same type
TagUnit == 16777216
TagKey(a) == IF Len(a) >= 7 THEN a[7] * TagUnit ELSE 0
BadB(L, why, a) == [L EXCEPT !.bad = IF Len(@) < 4 THEN Append(@, <<why, a>>) ELSE @]
ApplyAlloc(sizes, L, a) ==   \* sizes: admissible live-element counts for a reallocate in this call
  LET kind == a[1] t1 == a[2] t2 == a[3] n1 == a[4] n2 == a[5] live == a[6] IN
  CASE kind = "alloc" ->
         IF t1 \in DOMAIN L.blocks THEN BadB(L, "block-handed-out-twice", a)
         ELSE [L EXCEPT !.blocks = Put(@, t1, n1 + TagKey(a))]
    [] kind = "dealloc" ->
         IF t1 = 0 /\ n1 = 0 THEN [L EXCEPT !.nullDealloc = @ + 1]      \* deallocate(nullptr, 0): not a block
         ELSE IF t1 \notin DOMAIN L.blocks THEN BadB(L, "dealloc-of-unknown-or-freed-block", a)
         ELSE IF L.blocks[t1] # n1 + TagKey(a)
              THEN BadB([L EXCEPT !.blocks = Del(@, t1)],
                        IF L.blocks[t1] % TagUnit = n1 THEN "block-handed-back-to-an-allocator-of-another-type" ELSE "dealloc-with-wrong-size", a)
         ELSE [L EXCEPT !.blocks = Del(@, t1)]
    [] kind = "realloc" ->
         IF Cat = "NTR" THEN BadB(L, "reallocate-used-for-non-relocatable-type", a)
         ELSE IF t1 = 0 /\ n1 = 0 THEN [L EXCEPT !.blocks = Put(@, t2, n2)]
         ELSE IF t1 \notin DOMAIN L.blocks THEN BadB(L, "realloc-of-unknown-block", a)
         ELSE IF L.blocks[t1] # n1 THEN BadB([L EXCEPT !.blocks = Put(Del(@, t1), t2, n2)], "realloc-with-wrong-old-capacity", a)
         ELSE IF live >= 0 /\ (live \notin sizes \/ live * ESize > n1 \/ live * ESize > n2)
              THEN BadB([L EXCEPT !.blocks = Put(Del(@, t1), t2, n2)], "realloc-with-wrong-live-count", a)
         ELSE [L EXCEPT !.blocks = Put(Del(@, t1), t2, n2)]
    [] OTHER -> BadB(L, "unknown-event", a)

NAllocReq(as) == Cardinality({i \in 1..Len(as) : as[i][1] \in {"alloc", "realloc"}})
=============================================================================
