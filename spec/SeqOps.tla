------------------------------- MODULE SeqOps -------------------------------
(* Pure operators giving the std::vector / std::set meaning of the library's operations.               *)
(* Positions are 0-based as in the C++ API (an iterator is begin() + pos); sequences are TLA+ 1-based. *)
EXTENDS Naturals, Integers, Sequences, FiniteSets

Min(a, b) == IF a < b THEN a ELSE b
Max(a, b) == IF a > b THEN a ELSE b

Rep(n, v) == [i \in 1..n |-> v]

\* insert sequence t before 0-based position pos of s (pos in 0..Len(s))
InsertSeq(s, pos, t) == SubSeq(s, 1, pos) \o t \o SubSeq(s, pos + 1, Len(s))

\* erase the 0-based half open range [p, q) of s
EraseRange(s, p, q) == SubSeq(s, 1, p) \o SubSeq(s, q + 1, Len(s))

ResizeTo(s, n, v) == IF n <= Len(s) THEN SubSeq(s, 1, n) ELSE s \o Rep(n - Len(s), v)

\* lexicographic "less than" on integer sequences (std::lexicographical_compare)
LexLess(a, b) ==
  \E i \in 1..(Min(Len(a), Len(b)) + 1) :
     /\ \A j \in 1..(i - 1) : a[j] = b[j]
     /\ \/ (i > Len(a) /\ i <= Len(b))
        \/ (i <= Len(a) /\ i <= Len(b) /\ a[i] < b[i])

RECURSIVE CeilLog2(_)
CeilLog2(n) == IF n <= 1 THEN 0 ELSE 1 + CeilLog2((n + 1) \div 2)

\* remove all occurrences of v (std::erase) / all elements satisfying P
RemoveVal(s, v) == SelectSeq(s, LAMBDA x : x # v)

CountVal(s, v) == Cardinality({i \in 1..Len(s) : s[i] = v})

SeqsUpTo(S, n) == UNION {[1..m -> S] : m \in 0..n}
=============================================================================
