#!/bin/sh
# Offline set-up: check that the tools the checks need are present and that the specifications parse.
set -e
cd "$(dirname "$0")"
for t in java g++ python3; do command -v $t >/dev/null || { echo "missing tool: $t"; exit 1; }; done
test -f /opt/veriftools/tla/tla2tools.jar || { echo "missing tla2tools.jar"; exit 1; }
mkdir -p .work/setup && cp spec/*.tla .work/setup/
cd .work/setup
for m in SeqOps Vec MCVec TraceVec Growth Sets MCSets Ledger TraceSets MemAlgo MCMemAlgo TraceMemAlgo Static Readers TraceReaders SmallVecWords Slots; do
  java -cp /opt/veriftools/tla/tla2tools.jar:/opt/veriftools/tla/CommunityModules-deps.jar tla2sany.SANY $m.tla >$m.sany.log 2>&1 || { cat $m.sany.log; exit 1; }
  if grep -q "Errors\|Error:" $m.sany.log; then cat $m.sany.log; exit 1; fi
done
echo "setup ok"
