#define AMC_NONSTD_FEATURES
#include <amc/smallvector.hpp>
#include <amc/vector.hpp>
#include <amc/fixedcapacityvector.hpp>
#include <amc/flatset.hpp>
#include <sstream>
#include <iterator>
#include <list>
#include <cstdio>
using namespace amc;
template<class V> void show(const char*n,const V&v){ printf("%s:[",n); for(auto&e:v)printf("%d ",(int)e); printf("]\n"); }
int main(){ using It=std::istream_iterator<int>;
 { std::istringstream is("1 2 3 4"); vector<int> a{It(is),It()}; show("ctor",a);} 
 { std::istringstream is("1 2 3 4"); SmallVector<int,2> b{9,8}; auto it=b.insert(b.begin()+1,It(is),It()); show("insert",b); printf(" ret idx %d\n",(int)(it-b.begin())); }
 { std::istringstream is("1 2 3 4"); FixedCapacityVector<int,8> c{9}; c.assign(It(is),It()); show("assign",c);} 
 { std::istringstream is("1 2 3 4"); vector<int> d{9}; d.append(It(is),It()); show("append",d);} 
 { std::list<int> l{5,6,7}; vector<int> e{1,2}; e.insert(e.begin()+1,l.begin(),l.end()); e.append(l.begin(),l.end()); show("list",e); e.assign(l.begin(),l.end()); show("list assign",e);} 
 { std::istringstream is("3 1 2 3"); FlatSet<int> f{It(is),It()}; show("flatset ctor",f); std::istringstream is2("7 0"); f.insert(It(is2),It()); show("flatset insert",f);} 
}
