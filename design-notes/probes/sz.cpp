#include <amc/smallvector.hpp>
#include <amc/vector.hpp>
#include <amc/fixedcapacityvector.hpp>
#include <cstdio>
#include <algorithm>
using namespace amc;
template<size_t S,size_t A> struct alignas(A) El { char c[S]; };
static long worst=-1000; static int viol1=0, cnt=0; static long worstFixed=-1000;
template<size_t S,size_t A,size_t N> void one(){ using T=El<S,A>; static_assert(sizeof(T)==S,""); ++cnt;
  long sv=sizeof(SmallVector<T,N>), v=sizeof(vector<T>);
  if(N*S<=sizeof(void*)){ if(sv>v){ ++viol1; printf("viol1 S=%zu A=%zu N=%zu sv=%ld v=%ld\n",S,A,N,sv,v);} }
  else { long ex=sv-v-(long)(N*S); long amax=std::max(A,alignof(void*)); if(ex>worst){worst=ex; printf("excess S=%zu A=%zu N=%zu sv=%ld v=%ld ex=%ld amax=%ld\n",S,A,N,sv,v,ex,amax);} }
  long fx=sizeof(FixedCapacityVector<T,(N?N:1)>); long exf=fx-(long)((N?N:1)*S); if(exf>worstFixed){worstFixed=exf; printf("fixed excess S=%zu A=%zu N=%zu fx=%ld ex=%ld\n",S,A,N,fx,exf);} }
template<size_t S,size_t A> void ns(){ one<S,A,0>(); one<S,A,1>(); one<S,A,2>(); one<S,A,3>(); one<S,A,4>(); one<S,A,5>(); one<S,A,7>(); one<S,A,8>(); one<S,A,9>(); one<S,A,16>(); one<S,A,17>(); one<S,A,40>(); one<S,A,255>(); one<S,A,256>(); }
int main(){ ns<1,1>(); ns<2,1>(); ns<2,2>(); ns<3,1>(); ns<4,1>(); ns<4,2>(); ns<4,4>(); ns<5,1>(); ns<6,2>(); ns<7,1>(); ns<8,1>(); ns<8,4>(); ns<8,8>(); ns<9,1>(); ns<12,4>(); ns<16,8>(); ns<16,16>(); ns<24,8>(); ns<32,16>(); ns<20,4>();
  printf("cnt=%d viol1=%d worst=%ld worstFixed=%ld sizeof(vector<char>)=%zu\n",cnt,viol1,worst,worstFixed,sizeof(vector<char>)); }
