#define AMC_NONSTD_FEATURES
#include <amc/flatset.hpp>
#include <set>
#include <cstdio>
#include <random>
using namespace amc;
struct Cmp { bool desc; int mod; Cmp(bool d=false,int m=1):desc(d),mod(m){} bool operator()(int a,int b)const{ return desc? b/mod<a/mod : a/mod<b/mod; } };
int main(){ std::mt19937 g(3); int bad=0; for(int it=0;it<20000&&bad<3;++it){ Cmp ca(g()%2,1+g()%2), cb(g()%2,1+g()%2); FlatSet<int,Cmp> a(ca), b(cb); std::set<int,Cmp> ra(ca), rb(cb);
  int na=g()%6, nb=g()%6; for(int i=0;i<na;i++){int k=g()%10; a.insert(k); ra.insert(k);} for(int i=0;i<nb;i++){int k=g()%10; b.insert(k); rb.insert(k);} a.merge(b); ra.merge(rb);
  if(!std::equal(a.begin(),a.end(),ra.begin(),ra.end())||!std::equal(b.begin(),b.end(),rb.begin(),rb.end())){ printf("mismatch it=%d\n",it); ++bad; } }
  FlatSet<int> x{1,3,5}, y{2,3,6}; x.merge(y); printf("stateless: "); for(int v:x)printf("%d ",v); printf("| "); for(int v:y)printf("%d ",v); printf("\nbad=%d\n",bad); }
