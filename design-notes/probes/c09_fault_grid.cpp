#define AMC_NONSTD_FEATURES
#include <amc/smallvector.hpp>
#include <amc/vector.hpp>
#include <amc/fixedcapacityvector.hpp>
#include <cstdio>
#include <vector>
#include <map>
#include <string>
using namespace amc;
static long budget=1L<<40; struct Boom{};
static inline void tick(){ if(--budget<0) throw Boom(); }
static std::map<void*,size_t> g_blocks;
template<class T> struct CA { using value_type=T; using pointer=T*; using size_type=size_t; CA()=default; template<class U> CA(const CA<U>&){}
  T* allocate(size_t n){ tick(); T* p=(T*)malloc(n*sizeof(T)+1); g_blocks[p]=n; return p;}
  void deallocate(T*p,size_t n){ if(!p&&n==0) return; auto it=g_blocks.find(p); if(it==g_blocks.end()||it->second!=n){printf(" !!bad dealloc\n");} else g_blocks.erase(it); free(p);} 
  template<class U> struct rebind{using other=CA<U>;}; bool operator==(const CA&)const{return true;} bool operator!=(const CA&)const{return false;} };
static long live=0;
template<bool TR> struct X{ int v; bool moved=false; X():v(0){tick();++live;} X(int x):v(x){tick();++live;} X(const X&o):v(o.v){tick();++live;} X(X&&o)noexcept:v(o.v){o.moved=true;++live;}
  X&operator=(const X&o){tick(); v=o.v; moved=false; return *this;} X&operator=(X&&o)noexcept{ v=o.v; moved=false; if(this!=&o)o.moved=true; return *this;} ~X(){--live;}
  using trivially_relocatable=typename std::conditional<TR,std::true_type,std::false_type>::type; };
struct Res{ long scen=0, faults=0, leak=0, movedvis=0, strongviol=0, unusable=0; std::map<std::string,long> byop; };
template<class V,bool Fixed,bool IsVector=false> void grid(const char*name){ using T=typename V::value_type; Res R; const char* opn[]={"push_back","emplace_back","insert1","insertN","insertRange","emplace","resize","resizeVal","assignN","assignRange","appendNVal","reserve","shrink","copyctor","copyassign"};
  bool strong[]={true,true,true,false,false,true,true,true,false,false,true,true,true,true,false};
  for(int op=0;op<15;++op) for(int size=0;size<=4;++size) for(int spare=0;spare<2;++spare) for(int pos=0;pos<=size;++pos) for(int cnt=0;cnt<=3;++cnt){
    bool usesPos=(op==2||op==3||op==4||op==5); bool usesCnt=(op==3||op==4||op==6||op==7||op==8||op==9||op==10||op==11); if(!usesPos&&pos!=0) continue; if(!usesCnt&&cnt!=1) continue; if(Fixed&&(op==11)) continue; if(PINNED && op==12 && !Fixed && IsVector) continue;
    for(long k=0;;++k){ bool threw=false; bool done=false; long liveBefore; std::vector<int> before, after; 
      { V a; for(int i=0;i<size;i++) a.emplace_back(10+i); if(!Fixed){ if(spare) a.reserve(size+6); else a.shrink_to_fit(); } V other; for(int i=0;i<cnt+1;i++) other.emplace_back(50+i);
        std::vector<T> src; for(int i=0;i<cnt;i++) src.emplace_back(70+i); T val(9);
        if(Fixed && (int)a.capacity() < size+ (usesCnt?cnt:1) + 0 && op!=6&&op!=7&&op!=8&&op!=9) { done=true; }
        if(Fixed && (op==6||op==7||op==8||op==9) && cnt+size-1 > (int)a.capacity()) done=true;
        if(done) break;
        for(auto&e:a) before.push_back(e.v); liveBefore=live; long extra=0;
        budget=k;
        try{ switch(op){ case 0: a.push_back(val); break; case 1: a.emplace_back(7); break; case 2: a.insert(a.begin()+pos,val); break; case 3: a.insert(a.begin()+pos,cnt,val); break; case 4: a.insert(a.begin()+pos,src.begin(),src.end()); break; case 5: a.emplace(a.begin()+pos,7); break;
            case 6: a.resize(size+cnt-1>0?size+cnt-1:0); break; case 7: a.resize(size+cnt-1>0?size+cnt-1:0,val); break; case 8: a.assign(size+cnt-1>0?size+cnt-1:0,val); break; case 9: a.assign(src.begin(),src.end()); break; case 10: a.append(cnt,val); break; case 11: a.reserve(size+cnt+3); break; case 12: a.shrink_to_fit(); break;
            case 13: { V cp(a); extra=(long)cp.size(); (void)extra; } break; case 14: a=other; break; } }catch(Boom&){ threw=true; }
        budget=1L<<40; ++R.scen;
        if(!threw){ break; }
        ++R.faults; for(auto&e:a){ after.push_back(e.v); if(e.moved){ ++R.movedvis; R.byop[std::string(opn[op])+":movedvis"]++; break; } }
        long expectLive=liveBefore - (long)before.size() + (long)a.size(); if(live!=expectLive){ ++R.leak; R.byop[std::string(opn[op])+":leak"]++; }
        if(strong[op] && after!=before){ ++R.strongviol; R.byop[std::string(opn[op])+":strong"]++; }
        // usability
        try{ if(!Fixed || a.size()<a.capacity()) a.push_back(T(1)); a.clear(); }catch(...){ ++R.unusable; }
      }
      if(!threw) break; }
  }
  if(live!=0||!g_blocks.empty()){ printf("%s: END leak live=%ld blocks=%zu\n",name,live,g_blocks.size()); }
  printf("%-26s scenarios=%ld faults=%ld leak=%ld movedvisible=%ld strongviol=%ld unusable=%ld |",name,R.scen,R.faults,R.leak,R.movedvis,R.strongviol,R.unusable); for(auto&p:R.byop) printf(" %s=%ld",p.first.c_str(),p.second); printf("\n"); live=0; g_blocks.clear(); }
int main(){ grid<vector<X<false>,CA<X<false>>>,false,true>("vector<NTRX>"); grid<vector<X<true>,CA<X<true>>>,false,true>("vector<TRX>"); grid<SmallVector<X<false>,3,CA<X<false>>>,false>("SmallVector<NTRX,3>"); grid<SmallVector<X<true>,2,CA<X<true>>>,false>("SmallVector<TRX,2>"); grid<FixedCapacityVector<X<false>,8>,true>("Fixed<NTRX,8>"); grid<FixedCapacityVector<X<true>,8>,true>("Fixed<TRX,8>"); }
