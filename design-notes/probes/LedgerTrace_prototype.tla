---- MODULE L ----
EXTENDS Naturals, Sequences, FiniteSets, TLC, Json, IOUtils
VARIABLES mem, content, l, bad
vars == <<mem, content, l, bad>>
TraceLog == ndJsonDeserialize(IOEnv.TRACE)
Ev == TraceLog[l]
IsEv(e) == l <= Len(TraceLog) /\ Ev.e = e /\ l' = l + 1
Init == mem = <<>> /\ content = [c \in 1..3 |-> <<>>] /\ l = 1 /\ bad = FALSE
\* mem : token -> [id, st]
Put(t, r) == [x \in DOMAIN mem \cup {t} |-> IF x = t THEN r ELSE mem[x]]
Del(t) == [x \in DOMAIN mem \ {t} |-> mem[x]]
TCtor == IsEv("ctor") /\ Ev.t \notin DOMAIN mem /\ mem' = Put(Ev.t, [id |-> Ev.id, st |-> "live"]) /\ UNCHANGED <<content, bad>>
TMctor == IsEv("mctor") /\ Ev.t \notin DOMAIN mem /\ Ev.s \in DOMAIN mem /\ mem[Ev.s].st = "live"
          /\ mem' = [Put(Ev.t, [id |-> Ev.id, st |-> "live"]) EXCEPT ![Ev.s].st = "moved"] /\ UNCHANGED <<content, bad>>
TDtor == IsEv("dtor") /\ Ev.t \in DOMAIN mem /\ mem[Ev.t].id = Ev.id /\ mem' = Del(Ev.t) /\ UNCHANGED <<content, bad>>
VisibleIds == UNION { {content'[c][i].id : i \in 1..Len(content'[c])} : c \in 1..3 }
TOp == /\ IsEv("op")
       /\ content' = [content EXCEPT ![Ev.c] = Ev.elems]
       /\ UNCHANGED <<mem, bad>>
       /\ (\A i \in 1..Len(Ev.elems) : Ev.elems[i].t \in DOMAIN mem /\ mem[Ev.elems[i].t].id = Ev.elems[i].id /\ mem[Ev.elems[i].t].st = "live")
       /\ {mem[t].id : t \in DOMAIN mem} = VisibleIds
TReset == IsEv("reset") /\ mem' = <<>> /\ content' = [c \in 1..3 |-> <<>>] /\ UNCHANGED bad
Next == TCtor \/ TMctor \/ TDtor \/ TOp \/ TReset
Spec == Init /\ [][Next]_vars
Accepted == TLCGet("stats").diameter - 1 = Len(TraceLog)
====
