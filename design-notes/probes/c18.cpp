#define AMC_NONSTD_FEATURES
#include <amc/smallvector.hpp>
#include <amc/vector.hpp>
#include <cstdio>
#include <cstdint>
static long g_allocs=0, g_reallocs=0;
template<class T> struct CA { using value_type=T; using pointer=T*; using size_type=size_t; CA()=default; template<class U> CA(const CA<U>&){}
  T* allocate(size_t n){ ++g_allocs; return (T*)malloc(n*sizeof(T)+1);} void deallocate(T*p,size_t){ free(p);} 
  template<class U> struct rebind{using other=CA<U>;}; bool operator==(const CA&)const{return true;} bool operator!=(const CA&)const{return false;} };
template<class T> struct CR : CA<T> { template<class U> struct rebind{using other=CR<U>;}; T* reallocate(T*p,size_t,size_t n,size_t){ ++g_reallocs; return (T*)realloc(p,n*sizeof(T)+1);} };
static long moves=0; struct E{int v; E(int x=0):v(x){} E(const E&o):v(o.v){} E(E&&o)noexcept:v(o.v){++moves;} E&operator=(const E&)=default; };
int clog2(long x){ int r=0; long p=1; while(p<x){p<<=1;++r;} return r; }
template<class V> long run(const char*name,int start,long nmax){ long worst=-100, worstN=0; long worstMv=0;
  V v; if(start==1){ v.push_back(typename V::value_type(1)); } if(start==2){ v.reserve(37);} if(start==3){ for(int i=0;i<50;i++)v.push_back(typename V::value_type(i)); v.shrink_to_fit(); }
  long a0=g_allocs+g_reallocs; moves=0; for(long n=1;n<=nmax;++n){ v.emplace_back((int)n); long re=g_allocs+g_reallocs-a0; long bound=2*clog2(n)+4; if(re-bound>worst){worst=re-bound;worstN=n;} if(moves-3*n>worstMv) worstMv=moves-3*n; }
  printf("%-34s start=%d n<=%ld worst(reallocs-bound)=%ld at n=%ld, max(moves-3n)=%ld\n",name,start,nmax,worst,worstN,worstMv); return worst; }
int main(){ for(int st=0;st<4;++st){ run<amc::vector<E,CA<E>>>("vector<E>",st,200000); run<amc::SmallVector<E,5,CA<E>>>("SmallVector<E,5>",st,200000); run<amc::vector<int,CR<int>>>("vector<int,realloc>",st,200000); run<amc::SmallVector<int,3,amc::allocator<int>,uint8_t>>("SmallVector<int,3,u8>",st, st==3?200:250); } }
