---- MODULE VP ----
(* Calibration prototype of the vector Design model: full label set, deterministic policy. *)
EXTENDS Naturals, Sequences, FiniteSets, TLC
CONSTANTS K, N, MaxLen, Vals, Fixed, ItKinds, WithAlias
VARIABLES content, cap, mode, pristine, lbl
vars == <<content, cap, mode, pristine, lbl>>
C == 1..K
Max(a, b) == IF a > b THEN a ELSE b
Min(a, b) == IF a < b THEN a ELSE b
InsertSeq(s, i, t) == SubSeq(s, 1, i - 1) \o t \o SubSeq(s, i, Len(s))
EraseRange(s, i, j) == SubSeq(s, 1, i - 1) \o SubSeq(s, j, Len(s))      \* erase [i, j)
Rep(n, v) == [x \in 1..n |-> v]
Take(s, n) == SubSeq(s, 1, Min(n, Len(s)))
NextCap(old, need) == Max((3 * old + 1) \div 2, need)
Ranges == {<<>>} \cup {<<v>> : v \in Vals} \cup {<<1, 2>>}

Init == /\ content = [c \in C |-> <<>>]
        /\ cap = [c \in C |-> N]
        /\ mode = [c \in C |-> IF N = 0 THEN "none" ELSE "inline"]
        /\ pristine = [c \in C |-> TRUE]
        /\ lbl = [op |-> "init"]

\* set content of c to s (size may grow): capacity / mode follow the design
SetTo(c, s, exact) ==
  LET need == Len(s) IN
  /\ need <= MaxLen
  /\ (Fixed => need <= N)
  /\ content' = [content EXCEPT ![c] = s]
  /\ IF need > cap[c]
     THEN /\ cap' = [cap EXCEPT ![c] = IF exact THEN need ELSE NextCap(cap[c], need)]
          /\ mode' = [mode EXCEPT ![c] = "heap"]
          /\ pristine' = [pristine EXCEPT ![c] = FALSE]
     ELSE UNCHANGED <<cap, mode, pristine>>

Val(c, src) == IF src.k = "val" THEN src.v ELSE content[c][src.i]
Srcs(c) == {[k |-> "val", v |-> v] : v \in Vals} \cup
           (IF WithAlias THEN {[k |-> "self", i |-> i] : i \in 1..Len(content[c])} ELSE {})

PushBack(c) == \E src \in Srcs(c) : /\ SetTo(c, Append(content[c], Val(c, src)), FALSE)
                                    /\ lbl' = [op |-> "push_back", c |-> c, src |-> src]
EmplaceBack(c) == \E src \in Srcs(c) : /\ SetTo(c, Append(content[c], Val(c, src)), FALSE)
                                       /\ lbl' = [op |-> "emplace_back", c |-> c, src |-> src]
Insert1(c) == \E pos \in 1..Len(content[c]) + 1, src \in Srcs(c), rv \in BOOLEAN :
                 /\ (rv => src.k = "val")
                 /\ SetTo(c, InsertSeq(content[c], pos, <<Val(c, src)>>), FALSE)
                 /\ lbl' = [op |-> "insert1", c |-> c, pos |-> pos, src |-> src, rv |-> rv]
Emplace(c) == \E pos \in 1..Len(content[c]) + 1, src \in Srcs(c) :
                 /\ SetTo(c, InsertSeq(content[c], pos, <<Val(c, src)>>), FALSE)
                 /\ lbl' = [op |-> "emplace", c |-> c, pos |-> pos, src |-> src]
InsertN(c) == \E pos \in 1..Len(content[c]) + 1, n \in 0..2, src \in Srcs(c) :
                 /\ SetTo(c, InsertSeq(content[c], pos, Rep(n, Val(c, src))), FALSE)
                 /\ lbl' = [op |-> "insertN", c |-> c, pos |-> pos, n |-> n, src |-> src]
InsertRange(c) == \E pos \in 1..Len(content[c]) + 1, r \in Ranges, it \in ItKinds :
                 /\ SetTo(c, InsertSeq(content[c], pos, r), FALSE)
                 /\ lbl' = [op |-> "insertRange", c |-> c, pos |-> pos, r |-> r, it |-> it]
AppendRange(c) == \E r \in Ranges, it \in ItKinds :
                 /\ SetTo(c, content[c] \o r, FALSE)
                 /\ lbl' = [op |-> "appendRange", c |-> c, r |-> r, it |-> it]
AppendN(c) == \E n \in 0..2, src \in Srcs(c) :
                 /\ SetTo(c, content[c] \o Rep(n, Val(c, src)), FALSE)
                 /\ lbl' = [op |-> "appendN", c |-> c, n |-> n, src |-> src]
AssignN(c) == \E n \in 0..MaxLen, src \in Srcs(c) :
                 /\ SetTo(c, Rep(n, Val(c, src)), FALSE)
                 /\ lbl' = [op |-> "assignN", c |-> c, n |-> n, src |-> src]
AssignRange(c) == \E r \in Ranges \cup {<<1, 2, 3>>}, it \in ItKinds :
                 /\ SetTo(c, r, FALSE)
                 /\ lbl' = [op |-> "assignRange", c |-> c, r |-> r, it |-> it]
Resize(c) == \E n \in 0..MaxLen :
                 /\ SetTo(c, IF n <= Len(content[c]) THEN Take(content[c], n) ELSE content[c] \o Rep(n - Len(content[c]), 0), FALSE)
                 /\ lbl' = [op |-> "resize", c |-> c, n |-> n]
ResizeVal(c) == \E n \in 0..MaxLen, src \in Srcs(c) :
                 /\ SetTo(c, IF n <= Len(content[c]) THEN Take(content[c], n) ELSE content[c] \o Rep(n - Len(content[c]), Val(c, src)), FALSE)
                 /\ lbl' = [op |-> "resizeVal", c |-> c, n |-> n, src |-> src]
Erase1(c) == \E pos \in 1..Len(content[c]) :
                 /\ SetTo(c, EraseRange(content[c], pos, pos + 1), FALSE)
                 /\ lbl' = [op |-> "erase1", c |-> c, pos |-> pos]
EraseR(c) == \E i \in 1..Len(content[c]) + 1 : \E j \in i..Len(content[c]) + 1 :
                 /\ SetTo(c, EraseRange(content[c], i, j), FALSE)
                 /\ lbl' = [op |-> "eraseRange", c |-> c, i |-> i, j |-> j]
PopBack(c) == \E val \in BOOLEAN :
                 /\ Len(content[c]) > 0
                 /\ SetTo(c, Take(content[c], Len(content[c]) - 1), FALSE)
                 /\ lbl' = [op |-> IF val THEN "pop_back_val" ELSE "pop_back", c |-> c]
Clear(c) == SetTo(c, <<>>, FALSE) /\ lbl' = [op |-> "clear", c |-> c]
Reserve(c) == \E n \in 0..MaxLen + 1 :
                 /\ ~Fixed
                 /\ IF n > cap[c] THEN /\ cap' = [cap EXCEPT ![c] = n] /\ mode' = [mode EXCEPT ![c] = "heap"]
                                       /\ pristine' = [pristine EXCEPT ![c] = FALSE]
                    ELSE UNCHANGED <<cap, mode, pristine>>
                 /\ UNCHANGED content /\ lbl' = [op |-> "reserve", c |-> c, n |-> n]
Shrink(c) == /\ UNCHANGED content /\ lbl' = [op |-> "shrink_to_fit", c |-> c]
             /\ IF mode[c] = "heap" /\ N > 0 /\ Len(content[c]) <= N
                THEN cap' = [cap EXCEPT ![c] = N] /\ mode' = [mode EXCEPT ![c] = "inline"] /\ pristine' = [pristine EXCEPT ![c] = TRUE]
                ELSE IF mode[c] = "heap" THEN cap' = [cap EXCEPT ![c] = Len(content[c])] /\ UNCHANGED <<mode, pristine>>
                     \* amc::vector (N = 0): capacity becomes size, buffer released when empty
                     ELSE IF N = 0 THEN cap' = [cap EXCEPT ![c] = Len(content[c])] /\ UNCHANGED <<mode, pristine>>
                     ELSE UNCHANGED <<cap, mode, pristine>>
Observe(c) == \E o \in {"at", "front_back", "iterate", "copy_ctor", "move_ctor_roundtrip", "relocate"} :
                 UNCHANGED <<content, cap, mode, pristine>> /\ lbl' = [op |-> o, c |-> c]

\* binary operations
CopyAssign(a, b) == /\ a # b /\ SetTo(a, content[b], FALSE) /\ lbl' = [op |-> "copy_assign", a |-> a, b |-> b]
MoveAssign(a, b) == /\ a # b /\ lbl' = [op |-> "move_assign", a |-> a, b |-> b]
                    /\ (Fixed => TRUE)
                    /\ IF mode[b] = "heap"
                       THEN /\ content' = [content EXCEPT ![a] = content[b], ![b] = <<>>]
                            /\ cap' = [cap EXCEPT ![a] = cap[b], ![b] = N]
                            /\ mode' = [mode EXCEPT ![a] = "heap", ![b] = IF N = 0 THEN "none" ELSE "inline"]
                            /\ pristine' = [pristine EXCEPT ![a] = FALSE, ![b] = TRUE]
                       ELSE /\ content' = [content EXCEPT ![a] = content[b], ![b] = <<>>]
                            /\ UNCHANGED <<cap, mode>>
                            /\ pristine' = [pristine EXCEPT ![b] = TRUE]
Swap(a, b) == /\ a < b /\ lbl' = [op |-> "swap", a |-> a, b |-> b]
              /\ content' = [content EXCEPT ![a] = content[b], ![b] = content[a]]
              /\ cap' = [cap EXCEPT ![a] = cap[b], ![b] = cap[a]]
              /\ mode' = [mode EXCEPT ![a] = mode[b], ![b] = mode[a]]
              /\ pristine' = [pristine EXCEPT ![a] = pristine[b], ![b] = pristine[a]]
Compare(a, b) == /\ a # b /\ UNCHANGED <<content, cap, mode, pristine>> /\ lbl' = [op |-> "compare", a |-> a, b |-> b]

Next == \/ \E c \in C : \/ PushBack(c) \/ EmplaceBack(c) \/ Insert1(c) \/ Emplace(c) \/ InsertN(c) \/ InsertRange(c)
                        \/ AppendRange(c) \/ AppendN(c) \/ AssignN(c) \/ AssignRange(c) \/ Resize(c) \/ ResizeVal(c)
                        \/ Erase1(c) \/ EraseR(c) \/ PopBack(c) \/ Clear(c) \/ Reserve(c) \/ Shrink(c) \/ Observe(c)
        \/ \E a, b \in C : CopyAssign(a, b) \/ MoveAssign(a, b) \/ Swap(a, b) \/ Compare(a, b)
Spec == Init /\ [][Next]_vars
Inv == \A c \in C : /\ Len(content[c]) <= cap[c]
                    /\ (mode[c] = "inline" => cap[c] = N)
                    /\ (pristine[c] /\ N > 0 => mode[c] = "inline")
View == <<content, cap, mode, pristine>>
====
