#define AMC_NONSTD_FEATURES
#include <amc/smallvector.hpp>
#include <amc/vector.hpp>
#include <amc/fixedcapacityvector.hpp>
#include <cstdio>
#include <vector>
#include <random>
using namespace amc;
static long g_allocs=0;
template<class T> struct CA { using value_type=T; using pointer=T*; using size_type=size_t; CA()=default; template<class U> CA(const CA<U>&){}
  T* allocate(size_t n){ ++g_allocs; return (T*)malloc(n*sizeof(T)+1);} void deallocate(T*p,size_t){ free(p);} 
  template<class U> struct rebind{using other=CA<U>;}; bool operator==(const CA&)const{return true;} bool operator!=(const CA&)const{return false;} };
struct E{int v; operator int() const {return v;} E(int x=0):v(x){} E(const E&o):v(o.v){} E(E&&o)noexcept:v(o.v){o.v=-1;} E&operator=(const E&o){v=o.v;return *this;} E&operator=(E&&o)noexcept{v=o.v; return *this;} ~E(){} };
template<class V,int N> int run(unsigned seed,int steps){ std::mt19937 g(seed); auto rnd=[&](int n){return (int)(g()%n);};
  V pool[3]; bool pristine[3]={true,true,true};
  auto inl=[&](const V&v){ return (char*)v.data()>=(char*)&v && (char*)v.data()<(char*)(&v+1); };
  for(int s=0;s<steps;++s){ int c=rnd(3), d=(c+1+rnd(2))%3; V&a=pool[c]; int op=rnd(20); int sz=(int)a.size(); int pos=rnd(sz+1), val=rnd(100), n=rnd(4);
    long cap0[3]; const void* dat0[3]; bool heap0[3]; for(int k=0;k<3;k++){cap0[k]=pool[k].capacity(); dat0[k]=pool[k].data(); heap0[k]=!inl(pool[k]) && pool[k].capacity()>0;}
    long al0=g_allocs; bool capMayDrop[3]={false,false,false}; bool dataMayChange[3]={false,false,false}; long newSize=-1; int tgt=c;
    switch(op){
      case 0: a.push_back(E(val)); newSize=sz+1; break;
      case 1: a.insert(a.begin()+pos,E(val)); newSize=sz+1; break;
      case 2: { E t(val); a.insert(a.begin()+pos,n,t); newSize=sz+n; } break;
      case 3: if(sz){ a.erase(a.begin()+rnd(sz)); newSize=sz-1;} else newSize=sz; break;
      case 4: { int ns=rnd(12); a.resize(ns); newSize=ns; } break;
      case 5: { int ns=rnd(12); a.assign(ns,E(val)); newSize=ns; } break;
      case 6: a.clear(); newSize=0; break;
      case 7: { int r=rnd(14); a.reserve(r); newSize=(r>sz?r:sz); if(r>N) pristine[c]=false; } break;
      case 8: a.shrink_to_fit(); capMayDrop[c]=true; dataMayChange[c]=true; newSize=sz; if((int)a.size()<=N) pristine[c]=true; break;
      case 9: { pool[d]=a; tgt=d; newSize=sz; } break;   // copy-assign into d
      case 10:{ bool srcHeap=heap0[c]; pool[d]=std::move(a); capMayDrop[c]=capMayDrop[d]=true; dataMayChange[c]=dataMayChange[d]=true; pristine[c]=true; if(srcHeap) pristine[d]=false; tgt=d; newSize=-2; } break;
      case 11:{ a.swap(pool[d]); capMayDrop[c]=capMayDrop[d]=true; dataMayChange[c]=dataMayChange[d]=true; std::swap(pristine[c],pristine[d]); newSize=-2; } break;
      case 12:{ bool srcHeap=heap0[c]; V mv(std::move(a)); capMayDrop[c]=true; dataMayChange[c]=true; pristine[c]=true; (void)srcHeap; newSize=-2; } break;
      case 13: if(sz){ a.pop_back(); newSize=sz-1;} else newSize=sz; break;
      case 14: a.emplace(a.begin()+pos,val); newSize=sz+1; break;
      case 15: { std::vector<E> src(n,E(val)); a.insert(a.begin()+pos,src.begin(),src.end()); newSize=sz+n; } break;
      case 16: { std::vector<E> src(rnd(9),E(val)); a.assign(src.begin(),src.end()); newSize=(long)src.size(); } break;
      case 17: a.append(n,E(val)); newSize=sz+n; break;
      case 18: { int p=rnd(sz+1), q=p+rnd(sz-p+1); a.erase(a.begin()+p,a.begin()+q); newSize=sz-(q-p);} break;
      default: a.emplace_back(val); newSize=sz+1; break; }
    if(newSize>=0 && newSize>N) pristine[tgt]=false;
    char buf[64]; snprintf(buf,sizeof buf,"seed=%u step=%d op=%d c=%d d=%d",seed,s,op,c,d);
    for(int k=0;k<3;k++){ V&v=pool[k];
      if(v.size()>v.capacity()){printf("C07 size>cap %s\n",buf);return 1;}
      if(!capMayDrop[k] && (long)v.capacity()<cap0[k]){printf("C07 capacity decreased %s k=%d %ld->%ld\n",buf,k,cap0[k],(long)v.capacity());return 1;}
      if(N>0 && pristine[k] && (!inl(v) || (int)v.capacity()!=N)){printf("C05 pristine but not inline/capN %s k=%d cap=%d\n",buf,k,(int)v.capacity());return 1;} }
    if(newSize>=0){ V&v=pool[tgt]; if(newSize<=cap0[tgt] && !dataMayChange[tgt] && (v.data()!=dat0[tgt] || g_allocs!=al0)){printf("C07 realloc within capacity %s newSize=%ld cap0=%ld\n",buf,newSize,cap0[tgt]);return 1;} 
      if(N>0 && pristine[tgt] && g_allocs!=al0){printf("C05 alloc while pristine %s\n",buf);return 1;} }
    if(op==7 && (long)pool[c].capacity()< (long)0){}
  }
  return 0; }
int main(){ int bad=0; for(unsigned s=1;s<=400&&bad<3;++s) bad+=run<SmallVector<E,3,CA<E>>,3>(s,500); printf("SmallVector<E,3> bad=%d\n",bad); bad=0;
  for(unsigned s=1;s<=400&&bad<3;++s) bad+=run<SmallVector<int,1,CA<int>>,1>(s,500); printf("SmallVector<int,1> bad=%d\n",bad); bad=0;
  for(unsigned s=1;s<=400&&bad<3;++s) bad+=run<vector<E,CA<E>>,0>(s,500); printf("vector<E> bad=%d\n",bad); }
