#include <amc/vector.hpp>
#include <amc/smallvector.hpp>
#include <cstdio>
static bool fail=false;
template<class T> struct CA { using value_type=T; using pointer=T*; using size_type=size_t; CA()=default; template<class U> CA(const CA<U>&){}
  T* allocate(size_t n){ if(fail) throw std::bad_alloc(); return (T*)malloc(n*sizeof(T));} void deallocate(T*p,size_t){ free(p);} template<class U> struct rebind{using other=CA<U>;}; bool operator==(const CA&)const{return true;} bool operator!=(const CA&)const{return false;} };
int main(){ setvbuf(stdout,0,_IONBF,0);
 { amc::SmallVector<int,2,CA<int>> s{1,2,3,4,5}; s.reserve(20); fail=true; try{ s.shrink_to_fit(); }catch(std::bad_alloc&){ printf("SmallVector: bad_alloc propagated, size=%d\n",(int)s.size()); } fail=false; }
 { amc::vector<int,CA<int>> v{1,2,3}; v.reserve(20); fail=true; try{ v.shrink_to_fit(); }catch(std::bad_alloc&){ printf("vector: bad_alloc propagated, size=%d\n",(int)v.size()); } fail=false; }
 printf("end\n"); }
