#define AMC_NONSTD_FEATURES
#include <amc/flatset.hpp>
#include <amc/smallset.hpp>
#include <cstdio>
#include <cmath>
using namespace amc;
static long calls=0; struct CL{ bool operator()(int a,int b)const{++calls;return a<b;} };
int clog2(long x){ int r=0; long p=1; while(p<x){p<<=1;++r;} return r; }
int main(){ long worstMargin=1000; long worstHint=0, worstWrongHint=0;
  for(int n: {0,1,2,3,4,5,7,8,9,15,16,17,31,32,33,63,64,100,1000,4096}){
    FlatSet<int,CL> s; for(int i=0;i<n;i++) s.insert(s.end(),2*i+1);
    long bound=2*clog2(n+1)+4; long mx=0;
    for(int k=0;k<=2*n+1; k+= (n>200? 7:1)){
      calls=0; s.find(k); mx=std::max(mx,calls); calls=0; s.contains(k); mx=std::max(mx,calls); calls=0; s.count(k); mx=std::max(mx,calls);
      calls=0; s.lower_bound(k); mx=std::max(mx,calls); calls=0; s.upper_bound(k); mx=std::max(mx,calls); calls=0; s.equal_range(k); mx=std::max(mx,calls);
      { FlatSet<int,CL> t=s; calls=0; t.insert(k); mx=std::max(mx,calls); calls=0; t.erase(k); mx=std::max(mx,calls); calls=0; t.emplace(k); mx=std::max(mx,calls);} 
      { FlatSet<int,CL> t=s; auto lb=t.lower_bound(k); calls=0; t.insert(lb,k); worstHint=std::max(worstHint,calls); }
      if(n<=64){ for(int h=0;h<=n;h++){ FlatSet<int,CL> t=s; calls=0; t.insert(t.begin()+h,k); worstWrongHint=std::max(worstWrongHint,calls-(long)bound);} }
    }
    worstMargin=std::min(worstMargin,bound-mx); printf("n=%d max=%ld bound=%ld\n",n,mx,bound);
  }
  printf("worst margin=%ld worst correct-hint calls=%ld worst wrong-hint excess over lookup bound=%ld\n",worstMargin,worstHint,worstWrongHint);
  { long mx=0; for(int N=1;N<=1;N++){} SmallSet<int,8,CL> s; for(int i=0;i<8;i++)s.insert(2*i+1); for(int k=0;k<20;k++){ calls=0; s.find(k); mx=std::max(mx,calls); calls=0; s.contains(k); mx=std::max(mx,calls); calls=0; s.count(k); mx=std::max(mx,calls);} printf("SmallSet<8> inline lookup max=%ld bound=%d\n",mx,2*8+2);
    SmallSet<int,8,CL> t=s; calls=0; t.insert(4); printf(" insert absent (full → grow) calls=%ld\n",calls); SmallSet<int,8,CL> u; for(int i=0;i<7;i++)u.insert(2*i+1); calls=0; u.insert(4); printf(" insert absent inline calls=%ld; ",calls); calls=0; u.erase(3); printf("erase calls=%ld; ",calls); calls=0; u.emplace(6); printf("emplace calls=%ld\n",calls); }
}
