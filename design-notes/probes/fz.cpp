#define AMC_NONSTD_FEATURES
#include <amc/smallvector.hpp>
#include <amc/vector.hpp>
#include <amc/fixedcapacityvector.hpp>
#include <cstdio>
#include <vector>
#include <map>
#include <random>
#include <string>
using namespace amc;
static std::map<void*,size_t> g_blocks; static long g_allocs=0;
template<class T> struct CA { using value_type=T; using pointer=T*; using size_type=size_t; CA()=default; template<class U> CA(const CA<U>&){}
  T* allocate(size_t n){ ++g_allocs; T* p=(T*)malloc(n*sizeof(T)+1); g_blocks[p]=n; return p;}
  void deallocate(T*p,size_t n){ if(!p&&n==0) return; auto it=g_blocks.find(p); if(it==g_blocks.end()||it->second!=n){printf(" !!bad dealloc %p %zu\n",(void*)p,n); abort();} g_blocks.erase(it); free(p);} 
  template<class U> struct rebind{using other=CA<U>;}; bool operator==(const CA&)const{return true;} bool operator!=(const CA&)const{return false;} };
static long live=0, selfmove=0;
struct E{int v; const E* self; E(int x=0):v(x),self(this){++live;} E(const E&o):v(o.v),self(this){o.chk();++live;} E(E&&o)noexcept:v(o.v),self(this){o.chk();++live;o.v=-1;}
  E&operator=(const E&o){chk();o.chk();v=o.v;return *this;} E&operator=(E&&o)noexcept{chk();o.chk();if(this==&o)++selfmove; v=o.v; if(this!=&o)o.v=-1; return *this;} ~E(){chk();--live;self=nullptr;}
  void chk()const{ if(self!=this){printf(" !!self mismatch\n"); abort();} } bool operator==(const E&o)const{return v==o.v;} bool operator<(const E&o)const{return v<o.v;} };
struct ETR{int v; int* p; ETR(int x=0):v(x),p(new int(x)){++live;} ETR(const ETR&o):v(o.v),p(new int(o.v)){++live;} ETR(ETR&&o)noexcept:v(o.v),p(o.p){++live;o.p=nullptr;o.v=-1;}
  ETR&operator=(const ETR&o){v=o.v; if(!p)p=new int(o.v); else *p=o.v; return *this;} ETR&operator=(ETR&&o)noexcept{ if(this!=&o){delete p; p=o.p; v=o.v; o.p=nullptr; o.v=-1;} return *this;} ~ETR(){delete p;--live;}
  using trivially_relocatable=std::true_type; bool operator==(const ETR&o)const{return v==o.v;} bool operator<(const ETR&o)const{return v<o.v;} };
template<class V,class R> bool same(const V&a,const R&r){ if(a.size()!=r.size()||a.empty()!=r.empty()) return false; for(size_t i=0;i<r.size();++i){ if(!(a[i].v==r[i])) return false;} return true; }
template<class V, int N, bool Fixed, class T> int run(unsigned seed,int steps){
  std::mt19937 g(seed); std::string hist;
  auto rnd=[&](int n){return (int)(g()%n);} ;
  { V pool[3]; std::vector<int> ref[3];
  for(int s=0;s<steps;++s){ int c=rnd(3), d=(c+1+rnd(2))%3; V&a=pool[c]; auto&r=ref[c]; int op=rnd(24); int sz=(int)r.size(); int room= Fixed? N-sz : 40-sz; char buf[96];
    int pos=rnd(sz+1), val=rnd(100), n=rnd(4);
    switch(op){
      case 0: if(room>0){a.push_back(T(val)); r.push_back(val);} break;
      case 1: if(room>0){a.emplace_back(val); r.push_back(val);} break;
      case 2: if(room>0){ auto it=a.insert(a.begin()+pos,T(val)); if(it-a.begin()!=pos) {printf("ret pos\n"); return 1;} r.insert(r.begin()+pos,val);} break;
      case 3: if(room>=n){ T t(val); auto it=a.insert(a.begin()+pos,n,t); if(it-a.begin()!=pos) {printf("ret pos\n"); return 1;} r.insert(r.begin()+pos,n,val);} break;
      case 4: if(room>=n){ std::vector<T> src; std::vector<int> rs; for(int i=0;i<n;i++){src.emplace_back(val+i); rs.push_back(val+i);} a.insert(a.begin()+pos,src.begin(),src.end()); r.insert(r.begin()+pos,rs.begin(),rs.end());} break;
      case 5: if(room>0){ a.emplace(a.begin()+pos,val); r.insert(r.begin()+pos,val);} break;
      case 6: if(sz>0){ int p=rnd(sz); auto it=a.erase(a.begin()+p); if(it-a.begin()!=p){printf("ret pos\n");return 1;} r.erase(r.begin()+p);} break;
      case 7: { int p=rnd(sz+1), q=p+rnd(sz-p+1); a.erase(a.begin()+p,a.begin()+q); r.erase(r.begin()+p,r.begin()+q);} break;
      case 8: if(sz>0){a.pop_back(); r.pop_back();} break;
      case 9: { int ns=rnd(Fixed?N+1:12); a.resize(ns); r.resize(ns);} break;
      case 10:{ int ns=rnd(Fixed?N+1:12); a.resize(ns,T(val)); r.resize(ns,val);} break;
      case 11:{ int ns=rnd(Fixed?N+1:12); a.assign(ns,T(val)); r.assign(ns,val);} break;
      case 12:{ int ns=rnd(Fixed?N+1:9); std::vector<T> src; std::vector<int> rs; for(int i=0;i<ns;i++){src.emplace_back(val+i); rs.push_back(val+i);} a.assign(src.begin(),src.end()); r=rs;} break;
      case 13: a.clear(); r.clear(); break;
      case 14: if(!Fixed){ a.reserve(rnd(14)); } break;
      case 15: a.shrink_to_fit(); break;
      case 16: { V cp(a); if(!same(cp,r)){printf("copy ctor\n");return 1;} } break;
      case 17: { pool[d]=a; ref[d]=r; } break;
      case 18: { V mv(std::move(a)); if(!same(mv,r)){printf("move ctor\n");return 1;} r.clear(); if(rnd(2)){ a=std::move(mv); r=std::vector<int>(); for(auto&e:a) r.push_back(e.v);} } break;
      case 19: { pool[d]=std::move(a); ref[d]=r; r.clear(); } break;
      case 20: { a.swap(pool[d]); r.swap(ref[d]); } break;
      case 21: if(sz>0){ T x=a.pop_back_val(); if(x.v!=r.back()){printf("popval\n");return 1;} r.pop_back(); } break;
      case 22: if(room>=n){ a.append(n,T(val)); r.insert(r.end(),n,val);} break;
      case 23: { bool e1=(a==pool[d]), e2=(r==ref[d]); bool l1=(a<pool[d]), l2=(r<ref[d]); if(e1!=e2||l1!=l2){printf("cmp\n");return 1;} } break;
    }
    snprintf(buf,sizeof buf,"op%d c%d d%d pos%d n%d;",op,c,d,pos,n); hist+=buf;
    for(int k=0;k<3;k++){ if(!same(pool[k],ref[k])){ printf("MISMATCH seed=%u step=%d after %s\n",seed,s,buf); return 1;} if(pool[k].size()>pool[k].capacity()){printf("size>cap seed=%u %s\n",seed,buf);return 1;}
      bool inl=(char*)pool[k].data()>=(char*)&pool[k] && (char*)pool[k].data()<(char*)(&pool[k]+1);
      if(N>0 && inl && (int)pool[k].capacity()!=N){printf("inline cap!=N seed=%u step=%d %s cap=%d\n",seed,s,buf,(int)pool[k].capacity());return 1;} }
    long tot=0; for(auto&rr:ref) tot+=rr.size(); if(live!=tot){printf("LIVE mismatch seed=%u step=%d %s live=%ld tot=%ld\n",seed,s,buf,live,tot);return 1;}
  } }
  if(live!=0){printf("leak objs %ld seed=%u\n",live,seed);return 1;} if(!g_blocks.empty()){printf("leak blocks %zu seed=%u\n",g_blocks.size(),seed);return 1;}
  return 0; }
int main(int argc,char**argv){ int nseeds=argc>1?atoi(argv[1]):200; int bad=0;
  for(int s=1;s<=nseeds&&bad<3;++s){ bad+=run<SmallVector<E,3,CA<E>>,3,false,E>(s,400); }
  printf("SmallVector<E,3> done bad=%d selfmove=%ld\n",bad,selfmove); bad=0;
  for(int s=1;s<=nseeds&&bad<3;++s){ bad+=run<SmallVector<ETR,2,CA<ETR>>,2,false,ETR>(s,400); }
  printf("SmallVector<ETR,2> done bad=%d\n",bad); bad=0;
  for(int s=1;s<=nseeds&&bad<3;++s){ bad+=run<vector<E,CA<E>,uint16_t>,0,false,E>(s,400); }
  printf("vector<E> done bad=%d\n",bad); bad=0;
  for(int s=1;s<=nseeds&&bad<3;++s){ bad+=run<FixedCapacityVector<E,6>,6,true,E>(s,400); }
  printf("Fixed<E,6> done bad=%d\n",bad); bad=0;
  for(int s=1;s<=nseeds&&bad<3;++s){ bad+=run<SmallVector<ETR,1,CA<ETR>,uint8_t>,1,false,ETR>(s,400); }
  printf("SmallVector<ETR,1,u8> done bad=%d\n",bad);
}
