#define AMC_NONSTD_FEATURES
#include <amc/smallvector.hpp>
#include <amc/vector.hpp>
#include <amc/fixedcapacityvector.hpp>
#include <amc/flatset.hpp>
#include <amc/smallset.hpp>
#include <cstdio>
#include <cstring>
#include <random>
#include <vector>
#include <set>
#include <new>
using namespace amc;
struct ETR{int v; int* p; ETR(int x=0):v(x),p(new int(x)){} ETR(const ETR&o):v(o.v),p(new int(o.v)){} ETR(ETR&&o)noexcept:v(o.v),p(o.p){o.p=nullptr;}
  ETR&operator=(const ETR&o){v=o.v; if(!p)p=new int(o.v); else *p=o.v; return *this;} ETR&operator=(ETR&&o)noexcept{ if(this!=&o){delete p; p=o.p; v=o.v; o.p=nullptr;} return *this;} ~ETR(){delete p;}
  using trivially_relocatable=std::true_type; bool operator<(const ETR&o)const{return v<o.v;} bool operator==(const ETR&o)const{return v==o.v;} };
template<class C> struct Box { alignas(C) unsigned char raw[2][sizeof(C)]; int cur=0; C* p; Box(){ p=new(raw[0]) C(); } ~Box(){ p->~C(); }
  void relocate(){ static_assert(amc::is_trivially_relocatable<C>::value,"claims TR"); int nx=1-cur; std::memcpy(raw[nx],raw[cur],sizeof(C)); std::memset(raw[cur],0xDD,sizeof(C)); cur=nx; p=reinterpret_cast<C*>(raw[nx]); } C& operator*(){return *p;} };
template<class V> int runv(unsigned seed){ std::mt19937 g(seed); auto rnd=[&](int n){return (int)(g()%n);}; Box<V> b; std::vector<int> r; const int cap = (int)(*b).max_size()<20? (int)(*b).max_size():20;
  for(int s=0;s<400;++s){ V&a=*b; int op=rnd(8), sz=(int)r.size(), val=rnd(50);
    switch(op){ case 0: case 1: if(sz<cap){ a.push_back(typename V::value_type(val)); r.push_back(val);} break; case 2: if(sz<cap){int p=rnd(sz+1); a.insert(a.begin()+p,typename V::value_type(val)); r.insert(r.begin()+p,val);} break;
      case 3: if(sz){int p=rnd(sz); a.erase(a.begin()+p); r.erase(r.begin()+p);} break; case 4: a.shrink_to_fit(); break; case 5: if(rnd(4)==0){a.clear(); r.clear();} break; default: b.relocate(); break; }
    V&c=*b; if(c.size()!=r.size()) {printf("size mismatch\n");return 1;} for(size_t i=0;i<r.size();++i) if(c[i].v!=r[i]){printf("content mismatch seed=%u\n",seed);return 1;} }
  return 0; }
template<class S> int runs(unsigned seed){ std::mt19937 g(seed); auto rnd=[&](int n){return (int)(g()%n);}; Box<S> b; std::set<int> r;
  for(int s=0;s<400;++s){ S&a=*b; int op=rnd(6), k=rnd(12);
    switch(op){ case 0: case 1: a.insert(k); r.insert(k); break; case 2: a.erase(k); r.erase(k); break; case 3: if(rnd(6)==0){a.clear(); r.clear();} break; default: b.relocate(); break; }
    S&c=*b; if(c.size()!=r.size()){printf("set size mismatch\n");return 1;} for(int x:r) if(!c.contains(x)){printf("set content mismatch\n");return 1;} }
  return 0; }
int main(){ int bad=0; for(unsigned s=1;s<=200;++s){ bad+=runv<SmallVector<ETR,3>>(s); bad+=runv<vector<ETR>>(s); bad+=runv<FixedCapacityVector<ETR,6>>(s); bad+=runv<SmallVector<ETR,1>>(s);
   bad+=runs<FlatSet<int>>(s); bad+=runs<SmallSet<int,3,std::less<int>,amc::allocator<int>,FlatSet<int>>>(s); bad+=runs<FlatSet<int,std::less<int>,amc::allocator<int>,SmallVector<int,4>>>(s);} 
  printf("relocation probes bad=%d; SmallSet<std::set> claims TR? %d\n",bad,(int)amc::is_trivially_relocatable<SmallSet<int,3>>::value); }
