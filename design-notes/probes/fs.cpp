#define AMC_NONSTD_FEATURES
#include <amc/flatset.hpp>
#include <amc/smallset.hpp>
#include <amc/smallvector.hpp>
#include <amc/fixedcapacityvector.hpp>
#include <cstdio>
#include <set>
#include <vector>
#include <random>
#include <algorithm>
using namespace amc;
struct Cmp { bool desc; int mod; Cmp(bool d=false,int m=1):desc(d),mod(m){} bool operator()(int a,int b)const{ return desc? b/mod<a/mod : a/mod<b/mod; } };
template<class S,class R> bool sameseq(const S&s,const R&r){ if(s.size()!=r.size()||s.empty()!=r.empty())return false; auto it=s.begin(); for(auto&x:r){ if(it==s.end()||*it!=x)return false; ++it;} return it==s.end(); }
template<class S,class R> bool sameset(const S&s,const R&r){ if(s.size()!=r.size()||s.empty()!=r.empty())return false; std::vector<int> a(s.begin(),s.end()), b(r.begin(),r.end()); std::sort(a.begin(),a.end()); std::sort(b.begin(),b.end()); return a==b; }
template<class S, bool Ordered> int run(unsigned seed,int steps,Cmp cmp,int keys){
  std::mt19937 g(seed); auto rnd=[&](int n){return (int)(g()%n);};
  using R=std::set<int,Cmp>;
  S pool[3]={S(cmp),S(cmp),S(cmp)}; R ref[3]={R(cmp),R(cmp),R(cmp)};
  auto same=[&](const S&s,const R&r){ return Ordered? sameseq(s,r): sameset(s,r); };
  for(int st=0;st<steps;++st){ int c=rnd(3), d=(c+1+rnd(2))%3; S&a=pool[c]; R&r=ref[c]; int op=rnd(22); int k=rnd(keys); char buf[64]; snprintf(buf,sizeof buf,"op%d c%d d%d k%d",op,c,d,k);
    switch(op){
      case 0: case 1: { auto p=a.insert(k); auto q=r.insert(k); if(p.second!=q.second|| *p.first!=*q.first){printf("insert ret %s\n",buf);return 1;} } break;
      case 2: { int h=rnd((int)a.size()+1); auto it=a.begin(); std::advance(it,h); auto p=a.insert(it,k); auto q=r.insert(r.begin(),k); if(*p!=*q){printf("hint ret %s\n",buf);return 1;} } break;
      case 3: { std::vector<int> v; int n=rnd(5); for(int i=0;i<n;i++)v.push_back(rnd(keys)); a.insert(v.begin(),v.end()); 
                if(cmp.mod==1) r.insert(v.begin(),v.end()); else { /* representative choice within range unspecified for flat: use same order */ r.insert(v.begin(),v.end()); } } break;
      case 4: { auto p=a.emplace(k); auto q=r.emplace(k); if(p.second!=q.second||*p.first!=*q.first){printf("emplace ret %s\n",buf);return 1;} } break;
      case 5: { auto x=a.erase(k); auto y=r.erase(k); if(x!=y){printf("erase cnt %s\n",buf);return 1;} } break;
      case 6: if(!r.empty()){ int i=rnd((int)r.size()); auto it=a.begin(); std::advance(it,i); int v=*it; auto nx=a.erase(it); r.erase(v); bool isend=(nx==a.end()); if(!isend){ int w=*nx; if(!r.count(w)&&cmp.mod==1){printf("erase ret deref %s\n",buf);return 1;} } } break;
      case 7: { auto f=a.find(k); auto q=r.find(k); if((f==a.end())!=(q==r.end()) || (q!=r.end() && *f!=*q)){printf("find %s\n",buf);return 1;} if(a.contains(k)!=(r.count(k)>0)||a.count(k)!=r.count(k)){printf("contains %s\n",buf);return 1;} } break;
      case 8: { pool[d]=a; ref[d]=r; } break;
      case 9: { pool[d]=std::move(a); ref[d]=std::move(r); r=R(cmp); a=S(cmp); } break;
      case 10:{ a.swap(pool[d]); r.swap(ref[d]); } break;
      case 11:{ a.merge(pool[d]); r.merge(ref[d]); } break;
      case 12:{ auto nh=a.extract(k); auto rh=r.extract(k); if(nh.empty()!=rh.empty()){printf("extract %s\n",buf);return 1;} if(!nh.empty()){ auto p=pool[d].insert(std::move(nh)); auto q=ref[d].insert(std::move(rh)); if(p.inserted!=q.inserted||p.node.empty()!=q.node.empty()){printf("node insert %s ins=%d/%d empty=%d/%d\n",buf,p.inserted,q.inserted,p.node.empty(),q.node.empty());return 1;} } } break;
      case 13:{ bool e1=(a==pool[d]), e2=(r==ref[d]); if(e1!=e2){printf("eq %s\n",buf);return 1;} bool l1=(a<pool[d]), l2=(r<ref[d]); if(l1!=l2){printf("lt %s %d %d\n",buf,l1,l2);return 1;} } break;
      case 14: a.clear(); r.clear(); break;
      case 15:{ S cp(a); if(!same(cp,r)){printf("copyctor %s\n",buf);return 1;} S mv(std::move(cp)); if(!same(mv,r)){printf("movector %s\n",buf);return 1;} } break;
      case 16:{ int cnt=0; for(auto it=a.begin(); it!=a.end() && cnt<1000; ){ if(*it%2==0) it=a.erase(it); else ++it; ++cnt; } if(cnt>=1000){printf("erase loop runaway %s\n",buf);return 1;} for(auto it=r.begin(); it!=r.end();){ if(*it%2==0) it=r.erase(it); else ++it; } } break;
      case 17:{ int cnt=0; for(auto it=a.rbegin(); it!=a.rend(); ++it) ++cnt; if(cnt!=(int)r.size()){printf("rev walk %s\n",buf);return 1;} } break;
      case 18:{ a={k,k+1,k}; r={k,k+1,k}; if(false){} } break;
      case 19:{ auto p=a.emplace_hint(a.end(),k); auto q=r.emplace_hint(r.end(),k); if(*p!=*q){printf("emplace_hint %s\n",buf);return 1;} } break;
      default: { int x=rnd(keys); a.insert(x); r.insert(x);} break;
    }
    for(int i=0;i<3;i++) if(!same(pool[i],ref[i])){ printf("MISMATCH seed=%u step=%d %s set%d: amc[",seed,st,buf,i); for(auto x:pool[i])printf("%d ",x); printf("] std["); for(auto x:ref[i])printf("%d ",x); printf("]\n"); return 1; }
  }
  return 0; }
template<class S,bool O> void drive(const char*name,Cmp cmp,int keys,int seeds){ int bad=0; for(int s=1;s<=seeds&&bad<2;++s) bad+=run<S,O>(s,500,cmp,keys); printf("%s done bad=%d\n",name,bad);} 
int main(int argc,char**argv){ int n=argc>1?atoi(argv[1]):200;
  drive<FlatSet<int,Cmp>,true>("FlatSet asc",Cmp(false,1),12,n);
  drive<FlatSet<int,Cmp>,true>("FlatSet desc",Cmp(true,1),12,n);
  drive<FlatSet<int,Cmp,amc::allocator<int>,SmallVector<int,3>>,true>("FlatSet/SmallVector desc",Cmp(true,1),12,n);
  drive<FlatSet<int,Cmp,vec::EmptyAlloc,FixedCapacityVector<int,16>>,true>("FlatSet/Fixed asc",Cmp(false,1),12,n);
  drive<FlatSet<int,Cmp>,true>("FlatSet asc mod2",Cmp(false,2),12,n);
  drive<FlatSet<int,Cmp>,true>("FlatSet desc mod3",Cmp(true,3),12,n);
  drive<FlatSet<int,Cmp,amc::allocator<int>,std::vector<int,amc::allocator<int>>>,true>("FlatSet/std::vector asc",Cmp(false,1),12,n);
  drive<SmallSet<int,3,Cmp,amc::allocator<int>>,false>("SmallSet<3> std asc mod2",Cmp(false,2),10,n);
  drive<SmallSet<int,2,Cmp,amc::allocator<int>,FlatSet<int,Cmp>>,false>("SmallSet<2> flat asc mod2",Cmp(false,2),10,n);
  drive<SmallSet<int,3,Cmp,amc::allocator<int>>,false>("SmallSet<3> std asc",Cmp(false,1),10,n);
  drive<SmallSet<int,3,Cmp,amc::allocator<int>>,false>("SmallSet<3> std desc",Cmp(true,1),10,n);
  drive<SmallSet<int,4,Cmp,amc::allocator<int>,FlatSet<int,Cmp>>,false>("SmallSet<4> flat asc",Cmp(false,1),10,n);
  drive<SmallSet<int,1,Cmp,amc::allocator<int>,FlatSet<int,Cmp>>,false>("SmallSet<1> flat desc",Cmp(true,1),6,n);
}
