---- MODULE W ----
EXTENDS Integers
CONSTANTS
  \* @type: Int;
  N,
  \* @type: Int;
  KMax,
  \* @type: Bool;
  FixF01
VARIABLES
  \* @type: Int -> Int;
  w1,
  \* @type: Int -> Int;
  w2,
  \* @type: Int -> Int;
  sz,
  \* @type: Int -> Int;
  cp,
  \* @type: Int -> Bool;
  inl
vars == <<w1, w2, sz, cp, inl>>
V == {1, 2}
IsSmall(c) == w1[c] < w2[c]
Size(c) == IF IsSmall(c) THEN w1[c] ELSE w2[c]
Cap(c) == IF IsSmall(c) /\ w2[c] # KMax THEN w2[c] ELSE w1[c]
Max(a, b) == IF a > b THEN a ELSE b
Min(a, b) == IF a < b THEN a ELSE b
NextCap(old, need) == Min(Max((3 * old + 1) \div 2, need), KMax)
\* setSize as in SmallVectorBase::setSize, returns <<w1', w2'>>
SetSizeW(a, b, s) ==
  IF a < b THEN (IF b = KMax THEN (IF s # a THEN <<s, a>> ELSE <<s, b>>)
                 ELSE IF s = b THEN <<s, KMax>> ELSE <<s, b>>)
  ELSE <<a, s>>
Init == /\ w1 = [c \in V |-> 0] /\ w2 = [c \in V |-> N]
        /\ sz = [c \in V |-> 0] /\ cp = [c \in V |-> N] /\ inl = [c \in V |-> TRUE]
\* grow to at least need (need > Cap)
GrowW(c, need) ==
  IF IsSmall(c) THEN LET old == IF w2[c] = KMax THEN w1[c] ELSE w2[c] IN <<NextCap(old, need), w1[c]>>
  ELSE <<NextCap(w1[c], need), w2[c]>>
Push(c) == /\ sz[c] < KMax - 1
           /\ LET g == IF Size(c) = Cap(c) THEN GrowW(c, Size(c) + 1) ELSE <<w1[c], w2[c]>>
                  small == g[1] < g[2]
              IN IF small THEN (IF g[1] + 1 = g[2] THEN w1' = [w1 EXCEPT ![c] = g[1] + 1] /\ w2' = [w2 EXCEPT ![c] = KMax]
                                ELSE w1' = [w1 EXCEPT ![c] = g[1] + 1] /\ w2' = [w2 EXCEPT ![c] = g[2]])
                 ELSE w1' = [w1 EXCEPT ![c] = g[1]] /\ w2' = [w2 EXCEPT ![c] = g[2] + 1]
           /\ sz' = [sz EXCEPT ![c] = @ + 1]
           /\ IF sz[c] = cp[c] THEN cp' = [cp EXCEPT ![c] = NextCap(cp[c], sz[c] + 1)] /\ inl' = [inl EXCEPT ![c] = FALSE]
              ELSE UNCHANGED <<cp, inl>>
Pop(c) == /\ sz[c] > 0
          /\ IF IsSmall(c) THEN (IF w2[c] = KMax THEN w2' = [w2 EXCEPT ![c] = w1[c]] /\ w1' = [w1 EXCEPT ![c] = @ - 1]
                                 ELSE w1' = [w1 EXCEPT ![c] = @ - 1] /\ UNCHANGED w2)
             ELSE w2' = [w2 EXCEPT ![c] = @ - 1] /\ UNCHANGED w1
          /\ sz' = [sz EXCEPT ![c] = @ - 1] /\ UNCHANGED <<cp, inl>>
SetSz(c, s) == /\ s \in 0..cp[c] /\ s <= N + 3
               /\ LET r == SetSizeW(w1[c], w2[c], s) IN w1' = [w1 EXCEPT ![c] = r[1]] /\ w2' = [w2 EXCEPT ![c] = r[2]]
               /\ sz' = [sz EXCEPT ![c] = s] /\ UNCHANGED <<cp, inl>>
Shrink(c) == /\ ~IsSmall(c)
             /\ IF w2[c] <= N THEN w1' = [w1 EXCEPT ![c] = w2[c]] /\ w2' = [w2 EXCEPT ![c] = IF w2[c] = N THEN KMax ELSE N]
                                   /\ cp' = [cp EXCEPT ![c] = N] /\ inl' = [inl EXCEPT ![c] = TRUE]
                ELSE w1' = [w1 EXCEPT ![c] = w2[c]] /\ UNCHANGED w2 /\ cp' = [cp EXCEPT ![c] = sz[c]] /\ UNCHANGED inl
             /\ UNCHANGED sz
\* a = std::move(b)
MoveAssign(a, b) ==
  /\ a # b
  /\ IF IsSmall(b)
     THEN /\ sz[b] <= cp[a]    \* (F02 precondition: enough room; violated separately)
          /\ IF FixF01
             THEN LET ra == SetSizeW(w1[a], w2[a], w1[b])
                      rb == SetSizeW(w1[b], w2[b], 0)
                  IN w1' = [w1 EXCEPT ![a] = ra[1], ![b] = rb[1]] /\ w2' = [w2 EXCEPT ![a] = ra[2], ![b] = rb[2]]
             ELSE LET a2 == IF w2[b] = KMax /\ IsSmall(a) THEN KMax ELSE w2[a]
                      b2 == IF w2[b] = KMax THEN N ELSE w2[b]
                      aSmall == w1[a] < a2
                  IN IF aSmall THEN w1' = [w1 EXCEPT ![a] = w1[b], ![b] = 0] /\ w2' = [w2 EXCEPT ![a] = a2, ![b] = b2]
                     ELSE w1' = [w1 EXCEPT ![b] = 0] /\ w2' = [w2 EXCEPT ![a] = w1[b], ![b] = b2]
          /\ sz' = [sz EXCEPT ![a] = sz[b], ![b] = 0] /\ UNCHANGED <<cp, inl>>
     ELSE /\ w1' = [w1 EXCEPT ![a] = w1[b], ![b] = 0] /\ w2' = [w2 EXCEPT ![a] = w2[b], ![b] = N]
          /\ sz' = [sz EXCEPT ![a] = sz[b], ![b] = 0] /\ cp' = [cp EXCEPT ![a] = cp[b], ![b] = N]
          /\ inl' = [inl EXCEPT ![a] = FALSE, ![b] = TRUE]
Swap(a, b) == /\ a < b
              /\ w1' = [w1 EXCEPT ![a] = w1[b], ![b] = w1[a]] /\ w2' = [w2 EXCEPT ![a] = w2[b], ![b] = w2[a]]
              /\ sz' = [sz EXCEPT ![a] = sz[b], ![b] = sz[a]] /\ cp' = [cp EXCEPT ![a] = cp[b], ![b] = cp[a]]
              /\ inl' = [inl EXCEPT ![a] = inl[b], ![b] = inl[a]]
Next == \E c \in V : \/ Push(c) \/ Pop(c) \/ Shrink(c)
                     \/ \E s \in 0..(N + 3) : SetSz(c, s)
                     \/ \E b \in V : MoveAssign(c, b) \/ Swap(c, b)
Spec == Init /\ [][Next]_vars
DecodeOK == \A c \in V : Size(c) = sz[c] /\ Cap(c) = cp[c] /\ IsSmall(c) = inl[c]
Contract == \A c \in V : sz[c] <= cp[c] /\ (inl[c] => cp[c] = N)
Inv == DecodeOK /\ Contract
Bound == \A c \in V : sz[c] <= 12
====
