// Throw-away reproduction of the findings listed in DESIGN.md section 6 against the real headers.
// Build:  clang++ -std=c++17 -O1 -g -fsanitize=address,undefined -I/repo/include findings_repro.cpp -o repro
// Run  :  ASAN_OPTIONS=detect_leaks=0 ./repro <Fxx>      (one finding per run: several of them corrupt memory)
#define AMC_NONSTD_FEATURES
#include <amc/fixedcapacityvector.hpp>
#include <amc/flatset.hpp>
#include <amc/smallset.hpp>
#include <amc/smallvector.hpp>
#include <amc/vector.hpp>

#include <cstdio>
#include <cstring>
#include <iterator>
#include <map>
#include <set>
#include <sstream>
#include <string>
#include <vector>
using namespace amc;

static std::map<void *, size_t> g_blocks;
template <class T>
struct CA {
  using value_type = T; using pointer = T *; using size_type = size_t;
  CA() = default;
  template <class U> CA(const CA<U> &) {}
  T *allocate(size_t n) { T *p = (T *)malloc(n * sizeof(T) + 1); g_blocks[p] = n; return p; }
  void deallocate(T *p, size_t n) {
    if (!p && n == 0) return;
    auto it = g_blocks.find(p);
    if (it == g_blocks.end() || it->second != n) printf("  !! bad deallocate\n"); else g_blocks.erase(it);
    free(p);
  }
  template <class U> struct rebind { using other = CA<U>; };
  bool operator==(const CA &) const { return true; }
  bool operator!=(const CA &) const { return false; }
};
static bool g_fail = false;
template <class T>
struct FailAlloc : CA<T> {
  FailAlloc() = default;
  template <class U> FailAlloc(const FailAlloc<U> &) {}
  template <class U> struct rebind { using other = FailAlloc<U>; };
  T *allocate(size_t n) { if (g_fail) throw std::bad_alloc(); return CA<T>::allocate(n); }
};
static long live = 0, selfmove = 0; static int budget = 1 << 30;
struct Boom {};
struct E {
  int v;
  E(int x = 0) : v(x) { if (--budget < 0) throw Boom(); ++live; }
  E(const E &o) : v(o.v) { if (--budget < 0) throw Boom(); ++live; }
  E(E &&o) noexcept : v(o.v) { o.v = -1; ++live; }
  E &operator=(const E &o) { if (--budget < 0) throw Boom(); v = o.v; return *this; }
  E &operator=(E &&o) noexcept { if (this == &o) ++selfmove; v = o.v; if (this != &o) o.v = -1; return *this; }
  ~E() { --live; }
};
struct Cmp { bool desc; int mod; Cmp(bool d = false, int m = 1) : desc(d), mod(m) {}
  bool operator()(int a, int b) const { return desc ? b / mod < a / mod : a / mod < b / mod; } };
template <class V> void show(const char *n, const V &v) { printf("%s size=%d cap=%d [", n, (int)v.size(), (int)v.capacity()); for (auto &e : v) printf("%d ", (int)e.v); printf("]\n"); }
template <class V> void showi(const char *n, const V &v) { printf("%s size=%d [", n, (int)v.size()); for (auto &e : v) printf("%d ", (int)e); printf("]\n"); }

int main(int argc, char **argv) {
  setvbuf(stdout, 0, _IONBF, 0);
  std::string f = argc > 1 ? argv[1] : "";
  if (f == "F01") { SmallVector<int, 4, CA<int>> a{1, 2, 3, 4}, b{7, 8}; a = std::move(b); size_t nb = g_blocks.size(); printf("capacity=%d (expect 4)\n", (int)a.capacity()); a.push_back(9); printf("blocks allocated by push: %zu (expect 0)\n", g_blocks.size() - nb); }
  if (f == "F02") { vector<int> v{1}; SmallVector<int, 6> s(std::move(v)); SmallVector<int, 6> o{1, 2, 3, 4, 5}; s = std::move(o); printf("size=%d (ASan reports heap-buffer-overflow before this line on the pinned tree)\n", (int)s.size()); }
  if (f == "F03") { { SmallVector<int, 2, CA<int>> a{1, 2, 3, 4, 5}, b{1, 2, 3, 4, 5, 6}; a.clear(); a = std::move(b); } printf("blocks outstanding=%zu (expect 0)\n", g_blocks.size()); }
  if (f == "F04") { vector<E> a; for (int i = 0; i < 5; i++) a.emplace_back(i); a.erase(a.begin() + 1, a.begin() + 1); printf("self move assignments=%ld (expect 0)\n", selfmove); }
  if (f == "F05") { std::istringstream is("1 2 3 4"); vector<int> a{std::istream_iterator<int>(is), std::istream_iterator<int>()}; showi("range ctor from istream 1 2 3 4:", a); }
  if (f == "F06") { vector<E> a; a.reserve(16); for (int i = 0; i < 4; i++) a.emplace_back(10 + i); a.insert(a.begin() + 1, 2, a[2]); show("insert(begin+1, 2, a[2]) (expect 10 12 12 11 12 13):", a); }
  if (f == "F07") { SmallVector<int, 4, CA<int>> a{1, 2}; SmallVector<int, 6, CA<int>> b{5, 6, 7, 8}; a.swap2(b); printf("a.size=%d a.cap=%d (expect 4 4; pinned tree then crashes in the destructor)\n", (int)a.size(), (int)a.capacity()); }
  if (f == "F08") { { vector<E, amc::allocator<E>, uint8_t> a; for (int i = 0; i < 255; i++) a.emplace_back(i); try { a.emplace_back(7); } catch (std::exception &) {} } printf("live objects=%ld (expect 0)\n", live); }
  if (f == "F09") { { vector<E> a; a.reserve(16); for (int i = 0; i < 5; i++) a.emplace_back(i); E val(9); budget = 1; try { a.insert(a.begin() + 2, 3, val); } catch (Boom &) {} budget = 1 << 30; show("after throwing insert:", a); } printf("live objects=%ld (expect 0)\n", live); }
  if (f == "F10") { { vector<E> a; a.reserve(16); for (int i = 0; i < 3; i++) a.emplace_back(i); E val(9); budget = 4; try { a.assign(6, val); } catch (Boom &) {} budget = 1 << 30; } printf("live objects=%ld (expect 0)\n", live); }
  if (f == "F11") { int xs[] = {11, 25, 12, 10, 27}; FlatSet<int, Cmp> s{Cmp(false, 10)}; s.insert(10); s.insert(20); s.insert(xs, xs + 5); printf("size=%d (expect 2)\n", (int)s.size()); }
  if (f == "F12") { FlatSet<int> a{1, 2, 3}, b{2}; auto r = a.insert(b.extract(2)); printf("node.empty=%d (expect 0)\n", (int)r.node.empty()); }
  if (f == "F13") { FlatSet<int, Cmp> a{Cmp(false)}, b{Cmp(true)}; for (int x : {1, 3, 5}) a.insert(x); for (int x : {2, 4, 6}) b.insert(x); a.merge(b); showi("merged (expect 1 2 3 4 5 6):", a); }
  if (f == "F14") { SmallSet<int, 2, std::less<int>, amc::allocator<int>, FlatSet<int>> t{1, 2, 3}; t.erase(t.begin()); t.erase(t.begin()); auto r = t.erase(t.begin()); printf("erase(last)==end()? %d (expect 1)\n", (int)(r == t.end())); }
  if (f == "F15") { printf("compile with -std=c++11: "); int buf[4]; int *r = amc::uninitialized_default_construct_n(buf, 3); printf("returned offset %ld (expect 3)\n", (long)(r - buf)); }
  if (f == "F16") { SmallSet<int, 3, Cmp> a{Cmp(true)}, b{Cmp(true)}; std::set<int, Cmp> ra{Cmp(true)}, rb{Cmp(true)}; for (int x : {1, 5}) { a.insert(x); ra.insert(x); } for (int x : {2, 4}) { b.insert(x); rb.insert(x); } printf("a<b amc=%d std=%d\n", (int)(a < b), (int)(ra < rb)); }
  if (f == "F17") { vector<int, FailAlloc<int>> v{1, 2, 3}; v.reserve(20); g_fail = true; try { v.shrink_to_fit(); } catch (std::bad_alloc &) { printf("bad_alloc propagated (expected)\n"); } g_fail = false; printf("still alive, size=%d (pinned tree: std::terminate before this line)\n", (int)v.size()); }
  return 0;
}
