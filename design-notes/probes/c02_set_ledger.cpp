#define AMC_NONSTD_FEATURES
#include <amc/flatset.hpp>
#include <amc/smallset.hpp>
#include <cstdio>
#include <random>
#include <vector>
#include <set>
using namespace amc;
static long selfmove=0, selfcopy=0, live=0, movedread=0;
struct E{int v; bool moved=false; E(int x=0):v(x){++live;} E(const E&o):v(o.v){ if(o.moved)++movedread; ++live;} E(E&&o)noexcept:v(o.v){ if(o.moved)++movedread; o.moved=true; ++live;}
  E&operator=(const E&o){ if(this==&o)++selfcopy; else { if(o.moved)++movedread; v=o.v; moved=false;} return *this;} E&operator=(E&&o)noexcept{ if(this==&o)++selfmove; else { if(o.moved)++movedread; v=o.v; moved=false; o.moved=true;} return *this;} ~E(){--live;}
  bool operator<(const E&o)const{ return v<o.v;} bool operator==(const E&o)const{return v==o.v;} };
template<class S> void run(const char*name){ std::mt19937 g(5); long vis=0; for(int it=0;it<3000;++it){ S a,b; std::set<int> ra,rb; for(int st=0;st<60;++st){ int op=g()%9, k=g()%40;
   switch(op){ case 0: a.insert(E(k)); ra.insert(k); break; case 1: { std::vector<E> v; int n=g()%30; for(int i=0;i<n;i++){int x=g()%40; v.emplace_back(x); ra.insert(x);} a.insert(v.begin(),v.end()); } break; case 2: a.erase(E(k)); ra.erase(k); break;
     case 3: b.insert(E(k)); rb.insert(k); break; case 4: a.merge(b); ra.merge(rb); break; case 5: { auto nh=a.extract(E(k)); ra.erase(k);} break; case 6: a.emplace(k); ra.insert(k); break; case 7: if(!a.empty()){ auto it2=a.begin(); std::advance(it2,g()%a.size()); int v=it2->v; a.erase(it2); ra.erase(v);} break; default: { S c(a); a=std::move(c);} break; }
   for(auto&e:a) if(e.moved) ++vis; if(a.size()!=ra.size()){printf("%s mismatch\n",name);return;} } }
  printf("%-30s selfmove=%ld selfcopy=%ld moved-from-read=%ld visible-moved=%ld live=%ld\n",name,selfmove,selfcopy,movedread,vis,live); selfmove=selfcopy=movedread=0; }
int main(){ run<FlatSet<E>>("FlatSet<E>"); run<FlatSet<E,std::less<E>,amc::allocator<E>,SmallVector<E,4>>>("FlatSet<E>/SmallVector"); run<SmallSet<E,4>>("SmallSet<E,4>/std::set"); run<SmallSet<E,4,std::less<E>,amc::allocator<E>,FlatSet<E>>>("SmallSet<E,4>/FlatSet"); }
