#define AMC_NONSTD_FEATURES
#include <amc/smallvector.hpp>
#include <amc/vector.hpp>
#include <amc/fixedcapacityvector.hpp>
#include <cstdio>
#include <vector>
#include <map>
#include <random>
using namespace amc;
static std::map<void*,size_t> g_blocks;
template<class T> struct CA { using value_type=T; using pointer=T*; using size_type=size_t; CA()=default; template<class U> CA(const CA<U>&){}
  T* allocate(size_t n){ T* p=(T*)malloc(n*sizeof(T)+1); g_blocks[p]=n; return p;}
  void deallocate(T*p,size_t n){ if(!p&&n==0) return; auto it=g_blocks.find(p); if(it==g_blocks.end()||it->second!=n){printf(" !!bad dealloc\n"); abort();} g_blocks.erase(it); free(p);} 
  template<class U> struct rebind{using other=CA<U>;}; bool operator==(const CA&)const{return true;} bool operator!=(const CA&)const{return false;} };
static long live=0;
struct E{int v; const E* self; E(int x=0):v(x),self(this){++live;} E(const E&o):v(o.v),self(this){o.chk();++live;} E(E&&o)noexcept:v(o.v),self(this){o.chk();++live;o.v=-1;}
  E&operator=(const E&o){chk();o.chk();v=o.v;return *this;} E&operator=(E&&o)noexcept{chk();o.chk(); v=o.v; if(this!=&o)o.v=-1; return *this;} ~E(){chk();--live;self=nullptr;}
  void chk()const{ if(self!=this){printf(" !!self mismatch\n"); abort();} } };
struct ETR{int v; int*p; ETR(int x=0):v(x),p(new int(x)){++live;} ETR(const ETR&o):v(o.v),p(new int(o.v)){++live;} ETR(ETR&&o)noexcept:v(o.v),p(o.p){++live;o.p=nullptr;o.v=-1;}
  ETR&operator=(const ETR&o){v=o.v; if(!p)p=new int(o.v); else *p=o.v; return *this;} ETR&operator=(ETR&&o)noexcept{ if(this!=&o){delete p;p=o.p;v=o.v;o.p=nullptr;o.v=-1;} return *this;} ~ETR(){delete p;--live;} using trivially_relocatable=std::true_type; };
template<class V> void mutate(V&a,std::vector<int>&r,std::mt19937&g,int lim){ int op=g()%8; int sz=(int)r.size(); int val=g()%90;
  switch(op){ case 0: case 1: case 2: if(sz<lim){a.emplace_back(val); r.push_back(val);} break; case 3: if(sz){a.pop_back(); r.pop_back();} break; case 4: a.clear(); r.clear(); break; case 5: a.shrink_to_fit(); break; case 6: if(lim>8) a.reserve(g()%12); break; case 7: if(sz<lim){ int p=g()%(sz+1); a.insert(a.begin()+p,typename V::value_type(val)); r.insert(r.begin()+p,val);} break; } }
template<class A,class B> int pairrun(const char*name,int limA,int limB,int seeds){ int bad=0; long swaps=0, throws=0;
  for(int s=1;s<=seeds&&!bad;++s){ std::mt19937 g(s); { A a; B b; std::vector<int> ra, rb;
    for(int st=0;st<300&&!bad;++st){ int w=g()%5; if(w<2) mutate(a,ra,g,limA); else if(w<4) mutate(b,rb,g,limB); else {
        bool possible = (int)rb.size()<=limA && (int)ra.size()<=limB; bool threw=false;
        try{ if(g()%2) a.swap2(b); else { b.swap2(a);} }catch(std::exception&){threw=true;}
        if(threw){ ++throws; if(possible){printf("%s: threw though possible seed=%d\n",name,s);bad=1;} } else { ++swaps; if(!possible){printf("%s: no throw though impossible seed=%d\n",name,s);bad=1;} ra.swap(rb); } }
      auto chk=[&](auto&c,std::vector<int>&r){ if(c.size()!=r.size()) return false; for(size_t i=0;i<r.size();++i) if(c[i].v!=r[i]) return false; return (size_t)c.capacity()>=c.size(); };
      if(!bad && (!chk(a,ra)||!chk(b,rb))){ printf("%s: MISMATCH seed=%d step=%d sizes %zu/%zu vs %zu/%zu\n",name,s,st,(size_t)a.size(),(size_t)b.size(),ra.size(),rb.size()); bad=1; }
      if(!bad && live!=(long)(ra.size()+rb.size())){ printf("%s: LIVE mismatch seed=%d step=%d live=%ld\n",name,s,st,live); bad=1; }
    } }
    if(!bad && (live!=0||!g_blocks.empty())){ printf("%s: leak live=%ld blocks=%zu seed=%d\n",name,live,g_blocks.size(),s); bad=1; live=0; g_blocks.clear(); } }
  printf("%-40s bad=%d swaps=%ld throws=%ld\n",name,bad,swaps,throws); live=0; g_blocks.clear(); return bad; }
int main(int argc,char**argv){ int n=argc>1?atoi(argv[1]):150; int bad=0;
  bad+=pairrun<SmallVector<E,2,CA<E>>,SmallVector<E,4,CA<E>>>("SV2 x SV4 (E)",20,20,n);
  bad+=pairrun<SmallVector<ETR,3,CA<ETR>>,SmallVector<ETR,3,CA<ETR>>>("SV3 x SV3 (ETR)",20,20,n);
  bad+=pairrun<vector<E,CA<E>>,SmallVector<E,3,CA<E>>>("vector x SV3 (E)",20,20,n);
  bad+=pairrun<vector<ETR,CA<ETR>>,vector<ETR,CA<ETR>>>("vector x vector (ETR)",20,20,n);
  bad+=pairrun<FixedCapacityVector<E,5>,SmallVector<E,2,CA<E>>>("Fixed5 x SV2 (E)",5,20,n);
  bad+=pairrun<FixedCapacityVector<ETR,4>,FixedCapacityVector<ETR,6>>("Fixed4 x Fixed6 (ETR)",4,6,n);
  bad+=pairrun<FixedCapacityVector<E,5>,vector<E,CA<E>>>("Fixed5 x vector (E)",5,20,n);
  bad+=pairrun<SmallVector<E,2,CA<E>,uint8_t>,SmallVector<E,4,CA<E>,uint32_t>>("SV2/u8 x SV4/u32 (E)",20,20,n);
  bad+=pairrun<SmallVector<E,2,CA<E>>,SmallVector<E,4,std::allocator<E>>>("SV2/CA x SV4/std (E)",20,20,n);
  printf("total bad=%d\n",bad); }
