#define AMC_NONSTD_FEATURES
#include <amc/smallvector.hpp>
#include <amc/vector.hpp>
#include <amc/fixedcapacityvector.hpp>
#include <cstdio>
#include <vector>
using namespace amc;
static long live=0;
struct E{int v; const E* self; E(int x=0):v(x),self(this){++live;} E(const E&o):v(o.v),self(this){o.chk();++live;} E(E&&o)noexcept:v(o.v),self(this){o.chk();++live;o.v=-1;}
  E&operator=(const E&o){chk();o.chk();v=o.v;return *this;} E&operator=(E&&o)noexcept{chk();o.chk(); v=o.v; if(this!=&o)o.v=-1; return *this;} ~E(){chk();--live;self=nullptr;}
  void chk()const{ if(self!=this){printf(" !!self mismatch\n"); abort();} } };
struct ETR{int v; int*p; ETR(int x=0):v(x),p(new int(x)){++live;} ETR(const ETR&o):v(o.v),p(new int(o.v)){++live;} ETR(ETR&&o)noexcept:v(o.v),p(o.p){++live;o.p=nullptr;o.v=-1;}
  ETR&operator=(const ETR&o){v=o.v; if(!p)p=new int(o.v); else *p=o.v; return *this;} ETR&operator=(ETR&&o)noexcept{ if(this!=&o){delete p;p=o.p;v=o.v;o.p=nullptr;o.v=-1;} return *this;} ~ETR(){delete p;--live;} using trivially_relocatable=std::true_type; };
struct TCi{ int v; TCi(int x=0):v(x){} };
template<class V> V make(int size,bool spare){ V a; for(int i=0;i<size;i++) a.emplace_back(10+i); if(spare) { if((int)a.capacity()<size+4) a.reserve(size+4);} else a.shrink_to_fit(); return a; }
template<class V,bool Fixed> long grid(const char*name){ long cases=0,bad=0; using T=typename V::value_type;
  for(int size=0; size<=4; ++size) for(int sp=0; sp<2; ++sp) for(int op=0; op<8; ++op) for(int pos=0; pos<=size; ++pos) for(int src=0; src<size; ++src) for(int cnt=0; cnt<=3; ++cnt){
    if((op!=1&&op!=5&&op!=6&&op!=7) && cnt!=1) continue; if((op==0||op==4||op==5||op==6||op==7) && pos!=0) continue;
    V a=make<V>(size,sp); std::vector<int> r; for(auto&e:a) r.push_back(e.v); int sv=r[src];
    if(Fixed && (int)a.capacity() < size + ((op==1||op==7)?cnt:1)) continue;
    switch(op){
      case 0: a.push_back(a[src]); r.push_back(sv); break;
      case 1: a.insert(a.begin()+pos,cnt,a[src]); r.insert(r.begin()+pos,cnt,sv); break;
      case 2: a.insert(a.begin()+pos,a[src]); r.insert(r.begin()+pos,sv); break;
      case 3: a.emplace(a.begin()+pos,a[src]); r.insert(r.begin()+pos,sv); break;
      case 4: a.emplace_back(a[src]); r.push_back(sv); break;
      case 5: if(Fixed&&cnt+size>(int)a.capacity()) continue; a.resize(size+cnt,a[src]); r.resize(size+cnt,sv); break;
      case 6: if(Fixed&&cnt+size>(int)a.capacity()) continue; a.assign(cnt+size-1>0?cnt+size-1:0,a[src]); r.assign(cnt+size-1>0?cnt+size-1:0,sv); break;
      case 7: a.append(cnt,a[src]); r.insert(r.end(),cnt,sv); break; }
    ++cases; bool ok=a.size()==r.size(); for(size_t i=0;ok&&i<r.size();++i) ok=a[i].v==r[i];
    if(!ok){ if(bad<4){ printf("%s: op=%d size=%d spare=%d pos=%d src=%d cnt=%d got[",name,op,size,sp,pos,src,cnt); for(auto&e:a)printf("%d ",e.v); printf("] want["); for(int x:r)printf("%d ",x); printf("]\n"); } ++bad; } }
  printf("%-28s cases=%ld bad=%ld live=%ld\n",name,cases,bad,live); return bad; }
int main(){ long bad=0; bad+=grid<vector<E>,false>("vector<E>"); bad+=grid<vector<ETR>,false>("vector<ETR>"); bad+=grid<vector<TCi>,false>("vector<TC>"); bad+=grid<SmallVector<E,3>,false>("SmallVector<E,3>"); bad+=grid<SmallVector<ETR,2>,false>("SmallVector<ETR,2>"); bad+=grid<FixedCapacityVector<E,8>,true>("Fixed<E,8>"); bad+=grid<FixedCapacityVector<ETR,8>,true>("Fixed<ETR,8>"); printf("total bad=%ld\n",bad); }
