#!/bin/sh
# run every claimed check (quick tier by default) on the current tree and validate MANIFEST + evidence
cd "$(dirname "$0")/.."
tier=${1:-quick}
mkdir -p .work
rc=0
for p in $(python3 -c "import json; print(' '.join(c['property_id'] for c in json.load(open('MANIFEST.json'))['checks']))"); do
  start=$(date +%s)
  ./check $p $tier > .work/regen_$p.log 2>&1; r=$?
  echo "$p rc=$r $(($(date +%s)-start))s $(tail -1 .work/regen_$p.log | cut -c1-160)"
  [ $r -ne 0 ] && rc=1
done
python3-vt - <<'PY'
import json,jsonschema
m=json.load(open('MANIFEST.json')); jsonschema.validate(m,json.load(open('/root/.vp/MANIFEST.schema.json')))
es=json.load(open('/root/.vp/EVIDENCE.schema.json'))
for c in m['checks']:
    jsonschema.validate(json.load(open(c['evidence_file'])),es)
print('manifest + evidence valid')
PY
exit $rc
