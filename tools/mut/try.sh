#!/bin/sh
# usage: try.sh <mutant id> <property>...   (fresh worktree of /repo HEAD + the mutant's patch)
id=$1; shift
wt=/tmp/mut/t_$id
git -C /repo worktree remove --force $wt >/dev/null 2>&1
git -C /repo worktree add --detach $wt HEAD >/dev/null 2>&1
if ! git -C $wt apply /tmp/mut/$id/out/patch.diff; then echo "PATCH DOES NOT APPLY" > /tmp/mut/$id.check.log; exit 1; fi
cd /verif
export VERIF_REPO=$wt
: > /tmp/mut/$id.check.log
for prop in "$@"; do
  ./check $prop quick >> /tmp/mut/$id.check.log 2>&1
  echo "rc=$? prop=$prop" >> /tmp/mut/$id.check.log
done
git -C /repo worktree remove --force $wt
