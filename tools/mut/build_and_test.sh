#!/bin/sh
# usage: build_and_test.sh <worktree>  -- configures, builds and runs the repository's own test suite
set -e
cd "$1"
cmake -G Ninja -S . -B _b -DCMAKE_BUILD_TYPE=RelWithDebInfo -DCMAKE_CXX_FLAGS=-Wno-error -DGTest_DIR=/root/miniconda/lib/cmake/GTest > _b.configure.log 2>&1 || { tail -20 _b.configure.log; exit 2; }
cmake --build _b -j4 > _b.build.log 2>&1 || { tail -40 _b.build.log; exit 3; }
ctest --test-dir _b -j8 --timeout 900 2>&1 | tail -8
