#!/bin/sh
# usage: keep.sh <id> <caught-by text>  : confirm (suite passes with the change, demo passes on /repo and fails on the change) and store under /verif/seeded/<id>
id=$1
wt=/tmp/mut/k_$id
git -C /repo worktree remove --force $wt >/dev/null 2>&1
git -C /repo worktree add --detach $wt HEAD >/dev/null 2>&1
git -C $wt apply /tmp/mut/$id/out/patch.diff || { echo "patch does not apply"; exit 1; }
out=/verif/seeded/$id
mkdir -p $out
cp /tmp/mut/$id/out/patch.diff /tmp/mut/$id/out/demo.cpp /tmp/mut/$id/out/notes.md $out/ 2>/dev/null
[ -f /tmp/mut/$id/out/demo.sh ] && cp /tmp/mut/$id/out/demo.sh $out/
/verif/tools/confirm_seeded.sh $id $wt $out/demo.cpp /tmp/mut/confirm_$id
cp /tmp/mut/confirm_$id/confirm.json $out/meta.json
git -C /repo worktree remove --force $wt
