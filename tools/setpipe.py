"""Set pipeline: Sets.tla model checked by TLC, transition relation exported and covered by walks replayed on FlatSet /
SmallSet / std::set; recordings validated by TLC against TraceSets.tla."""
import hashlib
import json
import os
import pickle

from vlib import (InfraError, Raw, build, copy_specs, covering_walks, log, parse_counts, parse_export, tlc_export, run, tlc,
                  validate_split, workdir, write_mc, HARNESS)

ELEMS = {'TC': 'vh::ETC', 'TR': 'vh::ETR', 'NTR': 'vh::ENTR', 'NTRM': 'vh::ENTRM', 'NTRA': 'vh::ENTRA'}
ALLOCS = {'amcled': 1, 'stdlike': 2, 'withrealloc': 3, 'amc': 4, 'std': 5}
CMPT = {'Cmp': 1, 'Cmp2': 2, 'CmpT': 3, 'CmpL': 4, 'CmpG': 5}


def sslot(flav, cmp='Cmp', n=0, backing=None, vec=None):
    """(C++ type, model description).  flav: flat | small | std;  backing (small): None = std::set, 'flat';
    vec (flat): None = amc::vector, 'small2', 'fixed8', 'std'"""
    if flav == 'flat':
        v = {None: '', 'small2': ',amc::SmallVector<E,2,A<E>>', 'fixed8': ',amc::FixedCapacityVector<E,8>',
             'std': ',std::vector<E,A<E>>', 'small6': ',amc::SmallVector<E,6,A<E>>'}[vec]
        if vec == 'fixed8':
            t = 'amc::FlatSet<E,%s,amc::vec::EmptyAlloc%s>' % (cmp, v)
        else:
            t = 'amc::FlatSet<E,%s,A<E>%s>' % (cmp, v)
        return t, dict(flav='flat', n=0, cmpt=CMPT[cmp], cap=8 if vec == 'fixed8' else 0)
    if flav == 'small':
        b = '' if backing is None else ',amc::FlatSet<E,%s,A<E>>' % cmp
        return 'amc::SmallSet<E,%d,%s,A<E>%s>' % (n, cmp, b), dict(flav='small', n=n, cmpt=CMPT[cmp], cap=0)
    if flav == 'std':
        return 'std::set<E,%s,A<E>>' % cmp, dict(flav='std', n=0, cmpt=CMPT[cmp], cap=0)
    raise ValueError(flav)


class SetCfg:
    def __init__(self, name, elem, alloc, slots, std='c++20', count_global=True):
        self.name = name
        self.elem = elem
        self.alloc = alloc
        self.slots = [sslot(*s) for s in slots]
        self.std = std
        self.count_global = count_global

    def defines(self):
        d = ['CFG_ELEM=' + ELEMS[self.elem], 'CFG_ALLOC=%d' % ALLOCS[self.alloc],
             'CFG_TYPES=' + ','.join(t for t, _ in self.slots), 'CFG_NAME="%s"' % self.name]
        if self.count_global:
            d.append('VH_COUNT_GLOBAL_ALLOCS')
        return d

    def model(self):
        ms = [m for _, m in self.slots]
        types = [t for t, _ in self.slots]
        return dict(KS=len(ms), SFlav=[m['flav'] for m in ms], SN=[m['n'] for m in ms],
                    STypeId=[types.index(t) + 1 for t in types], SCmpType=[m['cmpt'] for m in ms],
                    transparent=[m['cmpt'] == 3 for m in ms])

    def is_ref(self):
        return any(m['flav'] == 'std' for _, m in self.slots)


def slabel_line(l, k=0):
    it = l.get('it') or '-'
    vs = l.get('vs') or []
    return '%s %d %d %d %d %d %d %s %d %d%s' % (l['op'], l['c'], l.get('d', 0), l.get('v', 0), l.get('h', 0), l.get('n', 0),
                                                l.get('cm', 0), it, k if k else l.get('k', 0), len(vs),
                                                ''.join(' %d' % x for x in vs))


def _cfg_lines(model, params, extra):
    return ['SPECIFICATION %s' % extra.get('spec', 'Spec'), 'CONSTANTS', ' KS <- CKS', ' SFlav <- CSFlav', ' SN <- CSN',
            ' STypeId <- CSTypeId', ' SCmpType <- CSCmpType', ' Keys <- CKeys', ' Cms <- CCms', ' Its <- CIts',
            ' RLens <- CRLens', ' MaxLen = %d' % params['MaxLen'], ' Ops <- COps'] + extra.get('lines', [])


def _defs(model, params):
    ops = params['Ops']
    if not any(model['transparent']):
        ops = '(%s) \\ SLookupsK' % ops
    return dict(CKS=model['KS'], CSFlav=model['SFlav'], CSN=model['SN'], CSTypeId=model['STypeId'],
                CSCmpType=model['SCmpType'], CKeys=set(params['Keys']), CCms=set(params['Cms']), CIts=set(params['Its']),
                CRLens=set(params['RLens']), COps=Raw(ops))


def sinit(model):
    dead = {'ex': False, 'elems': [], 'cmp': {'desc': False, 'mod': 1}, 'pri': False, 'large': False}
    return {'s': [dead] * model['KS'], 'node': {'has': False, 'v': 0, 't': 0}}


def smc_export_job(args):
    return smc_export(*args)


def smc_export(base, model, params, name):
    from vlib import dir_lock
    with dir_lock(workdir(base, 'smc_' + hashlib.sha256(json.dumps([model, params], sort_keys=True).encode()).hexdigest()[:12])):
        return _smc_export_unlocked(base, model, params, name)


def _smc_export_unlocked(base, model, params, name):
    key = json.dumps([model, params], sort_keys=True)
    d = workdir(base, 'smc_' + hashlib.sha256(key.encode()).hexdigest()[:12])
    done = os.path.join(d, 'done.json')
    if os.path.exists(done):
        return d, json.load(open(done))
    copy_specs(d)
    write_mc(d, 'MC_gen', 'MCSets', _defs(model, params),
             _cfg_lines(model, params, dict(lines=['VIEW View', 'INVARIANT Inv', 'ACTION_CONSTRAINT Export'])))
    outp = os.path.join(d, 'export.txt')
    rc, edges, tail, dt = tlc_export(d, 'MC_gen', 'MC_gen.cfg', outp, workers=6, timeout=3000, heap='6g')
    counts = parse_counts(tail)
    if rc != 0 or counts is None or 'No error has been found' not in tail:
        raise InfraError('MODEL-ERROR: model checking of %s failed (rc=%d)\n%s' % (name, rc, tail[-3000:]))
    key_fn = lambda s: json.dumps(s, sort_keys=True)
    init = key_fn(sinit(model))
    walks = covering_walks(edges, init, max_len=params.get('WalkLen', 300), key=key_fn)
    ops = {}
    for e in edges:
        ops[e['l']['op']] = ops.get(e['l']['op'], 0) + 1
    nsteps = 0
    with open(os.path.join(d, 'walks.script'), 'w') as f:
        for w in walks:
            for ei in w:
                f.write(slabel_line(edges[ei]['l']) + '\n')
                nsteps += 1
            f.write('reset\n')
    with open(os.path.join(d, 'edges.pickle'), 'wb') as f:
        pickle.dump([(key_fn(e['f']), e['l'], key_fn(e['t'])) for e in edges], f)
    info = dict(states=counts[1], transitions=len(edges), generated=counts[0], walks=len(walks), steps=nsteps, ops=ops,
                wall=dt, params=params, model=model, sample_walk=[edges[i]['l'] for i in walks[0][:12]] if walks else [])
    os.remove(outp)
    json.dump(info, open(done, 'w'))
    return d, info


def ssim(base, model, params, num, depth, seed, name):
    from vlib import dir_lock
    key = json.dumps([model, params, num, depth, seed], sort_keys=True)
    with dir_lock(workdir(base, 'ssim_' + hashlib.sha256(key.encode()).hexdigest()[:12])):
        return _ssim_unlocked(base, model, params, num, depth, seed, name)


def _ssim_unlocked(base, model, params, num, depth, seed, name):
    key = json.dumps([model, params, num, depth, seed], sort_keys=True)
    d = workdir(base, 'ssim_' + hashlib.sha256(key.encode()).hexdigest()[:12])
    done = os.path.join(d, 'done.json')
    if os.path.exists(done):
        return d, json.load(open(done))
    copy_specs(d)
    write_mc(d, 'MC_sim', 'MCSets', _defs(model, params),
             _cfg_lines(model, params, dict(spec='SpecRandom', lines=['INVARIANT Inv', 'ACTION_CONSTRAINT ExportSim'])))
    outp = os.path.join(d, 'export.txt')
    rc, edges, tail, dt = tlc_export(d, 'MC_sim', 'MC_sim.cfg', outp, workers=1, timeout=3000, heap='4g',
                                     extra=['-simulate', 'num=%d' % num, '-depth', str(depth), '-seed', str(seed)])
    if 'Error' in tail and 'Invariant' in tail:
        raise InfraError('MODEL-ERROR: simulation of %s violated an invariant\n%s' % (name, tail[-2000:]))
    init = sinit(model)
    nb = 0
    with open(os.path.join(d, 'sim.script'), 'w') as f:
        first = True
        for e in edges:
            if e['f'] == init and not first:
                f.write('reset\n')
                nb += 1
            first = False
            f.write(slabel_line(e['l']) + '\n')
        f.write('reset\n')
        nb += 1
    info = dict(behaviours=nb, steps=len(edges), wall=dt, params=params, model=model, num=num, depth=depth, seed=seed)
    os.remove(outp)
    json.dump(info, open(done, 'w'))
    return d, info


def hint_theorem(base, keys, cms):
    """C12 / C19 on the design of insert_hint: TLC evaluates HintTheorem over every subset of `keys`"""
    d = workdir(base, 'smc_hint')
    done = os.path.join(d, 'done.json')
    if os.path.exists(done):
        return json.load(open(done))
    copy_specs(d)
    model = dict(KS=1, SFlav=['flat'], SN=[0], STypeId=[1], SCmpType=[1], transparent=[False])
    params = dict(Keys=list(keys), Cms=list(cms), Its=['ptr'], RLens=[0], MaxLen=0, Ops='{"ctorDefault"}')
    write_mc(d, 'MC_hint', 'MCSets', _defs(model, params), _cfg_lines(model, params, dict(lines=['INVARIANT HintInv', 'CHECK_DEADLOCK FALSE'])))
    rc, out, dt = tlc(d, 'MC_hint', 'MC_hint.cfg', workers=4, timeout=1800, heap='6g')
    if rc != 0 or 'No error has been found' not in out:
        raise InfraError('MODEL-ERROR: HintTheorem does not hold on the design\n' + out[-3000:])
    n = 0
    import itertools
    # number of (subset, hint, value) instances TLC evaluated (counted, not assumed: same enumeration)
    for cm in cms:
        mod = 2 if cm >= 2 else 1
        for r in range(len(keys) + 1):
            for S in itertools.combinations(keys, r):
                reps = {k // mod for k in S}
                n += (len(reps) + 1) * len(keys)
    info = dict(instances=n, wall=dt, keys=list(keys), cms=list(cms))
    json.dump(info, open(done, 'w'))
    return info


def merge_theorem(base, keys, cms):
    """C03 on the design of FlatSet::merge: TLC evaluates MergeTheorem over every pair of subsets of `keys` and every pair
    of comparator states, and must REFUTE the pinned tree's assumption (single pass algorithm whatever the comparator objects)"""
    d = workdir(base, 'smc_merge')
    done = os.path.join(d, 'done.json')
    if os.path.exists(done):
        return json.load(open(done))
    copy_specs(d)
    model = dict(KS=1, SFlav=['flat'], SN=[0], STypeId=[1], SCmpType=[1], transparent=[False])
    params = dict(Keys=list(keys), Cms=list(cms), Its=['ptr'], RLens=[0], MaxLen=0, Ops='{"ctorDefault"}')
    write_mc(d, 'MC_merge', 'MCSets', _defs(model, params), _cfg_lines(model, params, dict(lines=['INVARIANT MergeInv', 'CHECK_DEADLOCK FALSE'])))
    rc, out, dt = tlc(d, 'MC_merge', 'MC_merge.cfg', workers=4, timeout=1800, heap='6g')
    if rc != 0 or 'No error has been found' not in out:
        raise InfraError('MODEL-ERROR: MergeTheorem does not hold on the design\n' + out[-3000:])
    write_mc(d, 'MC_mergeF13', 'MCSets', _defs(model, params), _cfg_lines(model, params, dict(lines=['INVARIANT MergeF13Inv', 'CHECK_DEADLOCK FALSE'])))
    rc2, out2, dt2 = tlc(d, 'MC_mergeF13', 'MC_mergeF13.cfg', workers=4, timeout=1800, heap='6g')
    if 'MergeF13Inv is equal to FALSE' not in out2:
        raise InfraError('MODEL-ERROR: the pinned merge (F13) is not refuted by TLC: the theorem is vacuous\n' + out2[-2000:])
    info = dict(instances=len(cms) * len(cms) * (2 ** len(keys)) ** 2, wall=dt + dt2, keys=list(keys), cms=list(cms), refuted_for='F13')
    json.dump(info, open(done, 'w'))
    return info


def build_set_harness(base, cfg):
    d = workdir(base, 'bin')
    out = os.path.join(d, cfg.name)
    if os.path.exists(out):
        return out
    build(os.path.join(HARNESS, 'set_main.cpp'), out + '.tmp', cfg.defines(), std=cfg.std)
    os.rename(out + '.tmp', out)
    return out


def validate_set(base, trace, tag):
    d = workdir(base, 'val_' + tag)
    copy_specs(d)
    return validate_split(d, 'TraceSets', 'TraceSets.cfg', trace)
