"""Suites (shared, cached runs) and the mapping property -> suites -> evidence."""
import json
import os
import time

import vlib
from vlib import InfraError, log, pmap, workdir, WORK, VERIF, execution_slice, read_lines, label_line
import vecpipe
from vecpipe import ImplCfg
import setpipe
from setpipe import SetCfg

ALL_ITS = ['ptr', 'input', 'fwd', 'bidir', 'ra', 'move']


# ------------------------------------------------------------------------------------------------------------------
# implementation configurations
def vec1_configs(tier):
    q = [
        ('v_TC_amcled', 'TC', 'amcled', [('vector', 0, 'u32')]),
        ('v_NTR_stdlike', 'NTR', 'stdlike', [('vector', 0, 'u32')]),
        ('s2_TR_amcled', 'TR', 'amcled', [('small', 2, 'u32')]),
        ('s3_NTR_withrealloc', 'NTR', 'withrealloc', [('small', 3, 'u32')]),
        ('s1_TC_amc_u8', 'TC', 'amc', [('small', 1, 'u8')]),
        ('s2_NTR_amcled_u16', 'NTR', 'amcled', [('small', 2, 'u16')]),
        ('f3_NTR', 'NTR', 'stdlike', [('fixed', 3)]),
        ('f2_TR', 'TR', 'stdlike', [('fixed', 2)]),
        ('ref_std_NTR', 'NTR', 'stdlike', [('std',)]),
    ]
    t = [
        ('v_TR_withrealloc_u64', 'TR', 'withrealloc', [('vector', 0, 'u64')]),
        ('v_NTRM_amcled', 'NTRM', 'amcled', [('vector', 0, 'u32')]),
        ('s4_TC1_amcled', 'TC1', 'amcled', [('small', 4, 'u32')]),
        ('s2_TC_stdlike_i32', 'TC', 'stdlike', [('small', 2, 'i32')]),
        ('s1_NTR_amcled', 'NTR', 'amcled', [('small', 1, 'u32')]),
        ('s3_TR_stdlike_u8', 'TR', 'stdlike', [('small', 3, 'u8')]),
        ('s2_NTRM_stdlike', 'NTRM', 'stdlike', [('small', 2, 'u32')]),
        ('f4_TC', 'TC', 'stdlike', [('fixed', 4)]),
        ('f1_NTR', 'NTR', 'stdlike', [('fixed', 1)]),
        ('ref_std_TR', 'TR', 'stdlike', [('std',)]),
    ]
    lst = q + (t if tier == 'thorough' else [])
    cfgs = [ImplCfg(n, e, a, s) for n, e, a, s in lst]
    if tier == 'quick':
        # the quick tier explores the full MaxLen=4 scope on three configurations and MaxLen=3 on the others
        for c in cfgs:
            if c.name in ('v_TC_amcled', 's1_TC_amc_u8', 's2_NTR_amcled_u16', 'ref_std_NTR'):
                c.maxlen = 3
    else:
        # thorough: MaxLen=5 on three configurations (250 k transitions each), MaxLen=4 on all the others
        for c in cfgs:
            if c.name not in ('s2_TR_amcled', 's3_NTR_withrealloc', 'v_NTR_stdlike'):
                c.maxlen = 4
    return cfgs


def vec2_configs(tier):
    q = [
        ('p_s2_NTR_amcled', 'NTR', 'amcled', [('small', 2, 'u32')] * 2),
        ('p_v_TR_amcled', 'TR', 'amcled', [('vector', 0, 'u32')] * 2),
        ('p_f2_NTR', 'NTR', 'stdlike', [('fixed', 2)] * 2),
        ('p_s1_TC_stdlike', 'TC', 'stdlike', [('small', 1, 'u32')] * 2),
        ('p_ref_std_NTR', 'NTR', 'stdlike', [('std',)] * 2),
    ]
    t = [
        ('p_s3_TR_withrealloc', 'TR', 'withrealloc', [('small', 3, 'u32')] * 2),
        ('p_s2_TC_amc_u8', 'TC', 'amc', [('small', 2, 'u8')] * 2),
        ('p_v_NTR_stdlike', 'NTR', 'stdlike', [('vector', 0, 'u32')] * 2),
        ('p_f3_TR', 'TR', 'stdlike', [('fixed', 3)] * 2),
    ]
    lst = q + (t if tier == 'thorough' else [])
    return [ImplCfg(n, e, a, s) for n, e, a, s in lst]


def params_vec1(tier):
    if tier == 'thorough':
        return dict(Vals=[1, 2], MaxLen=5, MaxCnt=2, Its=ALL_ITS, RLens=[0, 1, 2], Ops='AllOps', WalkLen=400)
    return dict(Vals=[1, 2], MaxLen=4, MaxCnt=2, Its=['ptr', 'input', 'bidir'], RLens=[0, 1, 2], Ops='AllOps', WalkLen=300)


VEC2_OPS = ('BinSame \\cup {"ctorCopy", "ctorMove", "destroy", "swap2", "ctorDefault", "ctorCountVal", "pushBack", '
            '"popBack", "clear", "reserve", "shrinkToFit", "assignN", "relocate", "insert1", "erase1"}')


# 2-edge coverage of the pair models: first edge = an operation that rewrites hidden representation state (moves, swaps,
# shrink_to_fit, clear, relocate), second edge = (quick) an operation that would expose a corrupted encoding / (thorough) any
PAIR_FIRST = ['assignMove', 'ctorMove', 'swap', 'swap2', 'shrinkToFit', 'clear', 'relocate', 'assignCopy']
PAIR_FIRST_QUICK = ['assignMove', 'ctorMove', 'swap', 'shrinkToFit', 'clear']
PAIR_SECOND_QUICK = ['assignMove', 'assignCopy', 'swap', 'pushBack', 'eq', 'destroy', 'shrinkToFit']


def params_vec2(tier):
    if tier == 'thorough':
        return dict(Vals=[1, 2], MaxLen=3, MaxCnt=1, Its=['ptr'], RLens=[0, 1], Ops=VEC2_OPS, WalkLen=400, Pairs=[PAIR_FIRST, PAIR_SECOND_QUICK])
    return dict(Vals=[1, 2], MaxLen=2, MaxCnt=1, Its=['ptr'], RLens=[0, 1], Ops=VEC2_OPS, WalkLen=300, Pairs=[PAIR_FIRST_QUICK, PAIR_SECOND_QUICK])


def params_sim(tier):
    return dict(Vals=[1, 2, 3], MaxLen=9, MaxCnt=3, Its=ALL_ITS, RLens=[0, 1, 2, 3], Ops='AllOps')


# ------------------------------------------------------------------------------------------------------------------
def export_models(d, jobs):
    """model check + export each DISTINCT (model, params) once, in parallel processes; jobs: [(cfg, params)]"""
    uniq = {}
    for cfg, params in jobs:
        uniq.setdefault(json.dumps([cfg.model(), params], sort_keys=True), (cfg, params))
    vlib.pmap_proc(vecpipe.mc_export_job, [(d, cp[0].model(), cp[1], cp[0].name) for cp in uniq.values()], workers=4)


def suite_dir(name, tier, seed):
    h = vlib.inputs_hash()
    return workdir(h, '%s_%s_%d' % (name, tier, seed)), h


def cached_suite(name, tier, seed, compute):
    d, h = suite_dir(name, tier, seed)
    res_path = os.path.join(d, 'result.json')
    if os.path.exists(res_path):
        r = json.load(open(res_path))
        r['cached'] = True
        return r
    # disk hygiene: keep the few most recent input hashes only (never one that was touched in the last hour)
    import shutil
    others = []
    for other in os.listdir(WORK):
        po = os.path.join(WORK, other)
        if other != h and len(other) == 20 and os.path.isdir(po):
            others.append((os.path.getmtime(po), po))
    others.sort(reverse=True)
    for mt, po in others[4:]:
        if time.time() - mt > 3600:
            shutil.rmtree(po, ignore_errors=True)
    import fcntl
    with open(os.path.join(d, 'lock'), 'w') as lk:
        fcntl.flock(lk, fcntl.LOCK_EX)       # concurrent checks wait for the one that computes the shared suite
        if os.path.exists(res_path):
            r = json.load(open(res_path))
            r['cached'] = True
            return r
        t0 = time.time()
        r = compute(d)
        r['wall'] = time.time() - t0
        r['cached'] = False
        json.dump(r, open(res_path + '.tmp', 'w'))
        os.rename(res_path + '.tmp', res_path)
    return r


def run_cfg_script(d, cfg, script, tag, batch=200, sanitize=False):
    """record script on cfg's harness and validate; returns result dict"""
    binary = vecpipe.build_harness(d, cfg, sanitize=sanitize)
    trace = os.path.join(workdir(d, 'traces'), '%s_%s.ndjson' % (cfg.name, tag))
    env = None
    if sanitize:
        # a sanitizer report aborts the child: its SIGABRT handler records a crash event for the call in flight
        env = dict(os.environ, ASAN_OPTIONS='abort_on_error=1:handle_abort=0:detect_leaks=0:allocator_may_return_null=1',
                   UBSAN_OPTIONS='halt_on_error=1:abort_on_error=1:print_stacktrace=0')
    dt_run, out = vecpipe.record(binary, script, trace, batch=batch, env=env)
    v = vecpipe.validate_vec(d, trace, '%s_%s' % (cfg.name, tag))
    v.update(config=cfg.name, tag=tag, trace=trace, run_wall=dt_run, script=script, is_ref=cfg.is_ref())
    return v


def suite_vec(tier, seed):
    def compute(d):
        jobs = []
        for kind, cfgs, params in (('vec1', vec1_configs(tier), params_vec1(tier)),
                                   ('vec2', vec2_configs(tier), params_vec2(tier))):
            for cfg in cfgs:
                p2 = dict(params)
                if getattr(cfg, 'maxlen', None):
                    p2['MaxLen'] = cfg.maxlen
                if 'Pairs' in p2 and not any(m['flav'] == 'small' for _, m in cfg.slots):
                    del p2['Pairs']
                jobs.append((kind, cfg, p2))
        # two SmallVectors of one type next to an amc::vector: a SmallVector that has adopted a vector's (small) heap buffer
        # then takes part in same-type moves (the heterogeneous pair models have no second SmallVector of the same type)
        vec3_ops = '{"ctorDefault", "ctorCountVal", "ctorFromVector", "ctorMove", "assignMove", "pushBack", "clear", "shrinkToFit", "destroy"}'
        for name, elem, alloc in (('t_s2_s2_v_NTR', 'NTR', 'amcled'),) + ((('t_s2_s2_v_TR', 'TR', 'stdlike'),) if tier == 'thorough' else ()):
            jobs.append(('vec3', ImplCfg(name, elem, alloc, [('small', 2, 'u32'), ('small', 2, 'u32'), ('vector', 0, 'u32')]),
                         dict(Vals=[1], MaxLen=2, MaxCnt=1, Its=['ptr'], RLens=[0], Ops=vec3_ops, WalkLen=300, Alias=False)))
        models = {}

        def one(job):
            kind, cfg, params = job
            md, info = vecpipe.mc_export(d, cfg.model(), params, cfg.name)
            r = run_cfg_script(d, cfg, os.path.join(md, 'walks.script'), 'walks')
            r['mc'] = info
            r['kind'] = kind
            return r
        # model checking runs are heavy: do distinct models first (sequentially cached), then fan out
        seen = set()
        for kind, cfg, params in jobs:
            k = json.dumps([cfg.model(), params], sort_keys=True)
            if k not in seen:
                seen.add(k)
        uniq = {}
        for kind, cfg, params in jobs:
            k = json.dumps([cfg.model(), params], sort_keys=True)
            uniq.setdefault(k, (cfg, params))
        vlib.pmap_proc(vecpipe.mc_export_job, [(d, cp[0].model(), cp[1], cp[0].name) for cp in uniq.values()], workers=4)
        results = pmap(one, jobs, workers=8)
        if tier == 'thorough':
            # the same walks on AddressSanitizer + UndefinedBehaviorSanitizer builds (clang): an out-of-bounds or
            # use-after-free access that changes no observed value still ends the call with a crash event
            def one_asan(job):
                kind, cfg, params = job
                md, info = vecpipe.mc_export(d, cfg.model(), params, cfg.name)
                r = run_cfg_script(d, cfg, os.path.join(md, 'walks.script'), 'walks_asan', sanitize=True)
                r['mc'] = info
                r['kind'] = kind
                r['config'] = cfg.name + '_asan'
                return r
            asan_names = ('v_NTR_stdlike', 's3_NTR_withrealloc', 'f3_NTR', 's2_TR_amcled', 'p_s2_NTR_amcled')
            results += pmap(one_asan, [j for j in jobs if j[1].name in asan_names], workers=4)
        # simulation behaviours of a larger model (beyond the exhaustive scope)
        simjobs = []
        nsim = 300 if tier == 'quick' else 1500
        sim_cfgs = [ImplCfg('sim_s3_NTR_amcled', 'NTR', 'amcled', [('small', 3, 'u32')] * 2 + [('vector', 0, 'u32')]),
                    ImplCfg('sim_s2_TR_withrealloc', 'TR', 'withrealloc', [('small', 2, 'u32')] * 2 + [('fixed', 6)]),
                    ImplCfg('sim_ref_std_NTR', 'NTR', 'stdlike', [('std',)] * 3)]
        if tier == 'thorough':
            sim_cfgs += [ImplCfg('sim_v_NTR_stdlike', 'NTR', 'stdlike', [('vector', 0, 'u32')] * 3),
                         ImplCfg('sim_f5_NTR', 'NTR', 'stdlike', [('fixed', 5)] * 2 + [('small', 4, 'u8')]),
                         ImplCfg('sim_s4_TC_amc', 'TC', 'amc', [('small', 4, 'u32')] * 3)]

        def onesim(cfg):
            sd, info = vecpipe.sim_behaviours(d, cfg.model(), params_sim(tier), nsim, 60, seed, cfg.name)
            r = run_cfg_script(d, cfg, os.path.join(sd, 'sim.script'), 'sim')
            r['sim'] = info
            r['kind'] = 'sim'
            return r
        results += pmap(onesim, sim_cfgs, workers=6)
        return dict(results=results)
    return cached_suite('vec', tier, seed, compute)


def fault_configs(tier):
    q = [
        ('ft_s2_TR_amcled', 'TR', 'amcled', [('small', 2, 'u32')]),
        ('ft_s2_NTR_stdlike', 'NTR', 'stdlike', [('small', 2, 'u32')]),
        ('ft_v_NTR_amcled', 'NTR', 'amcled', [('vector', 0, 'u32')]),
        ('ft_f3_NTR', 'NTR', 'stdlike', [('fixed', 3)]),
        # element types whose MOVE operations may throw (relocation while growing, shifting, the temporary of emplace)
        ('ft_s2_NTRM_stdlike', 'NTRM', 'stdlike', [('small', 2, 'u32')]),
        ('ft_v_NTRM_amcled', 'NTRM', 'amcled', [('vector', 0, 'u32')]),
        # ... and one whose move constructor is noexcept while its move assignment may throw
        ('ft_s2_NTRA_stdlike', 'NTRA', 'stdlike', [('small', 2, 'u32')]),
    ]
    t = [
        ('ft_v_TR_withrealloc', 'TR', 'withrealloc', [('vector', 0, 'u32')]),
        ('ft_s3_NTR_withrealloc', 'NTR', 'withrealloc', [('small', 3, 'u32')]),
        ('ft_s1_TR_stdlike', 'TR', 'stdlike', [('small', 1, 'u32')]),
        ('ft_f2_TR', 'TR', 'stdlike', [('fixed', 2)]),
        ('ft_s2_NTRM_amcled', 'NTRM', 'amcled', [('small', 2, 'u32')]),
        ('ft_f3_NTRM', 'NTRM', 'stdlike', [('fixed', 3)]),
        ('ft_f3_NTRA', 'NTRA', 'stdlike', [('fixed', 3)]),
        ('ft_v_NTRA_amcled', 'NTRA', 'amcled', [('vector', 0, 'u32')]),
        ('ft_v_NTRM_withrealloc', 'NTRM', 'withrealloc', [('vector', 0, 'u32')]),
        ('ft_p_s2_NTR_amcled', 'NTR', 'amcled', [('small', 2, 'u32')] * 2),
    ]
    lst = q + (t if tier == 'thorough' else [])
    out = [ImplCfg(n, e, a, s) for n, e, a, s in lst]
    # heterogeneous pairs (swap2, SmallVector(vector&&), buffer hand-over) under faults
    S = lambda *a: a
    x = [('ft_x_s2_v_NTRM', 'NTRM', 'stdlike', [S('small', 2, 'u32'), S('vector', 0, 'u32')])]
    if tier == 'thorough':
        x += [('ft_x_s2_s3_NTR', 'NTR', 'amcled', [S('small', 2, 'u32'), S('small', 3, 'u32')]),
              ('ft_x_f3_s2_NTRM', 'NTRM', 'stdlike', [S('fixed', 3), S('small', 2, 'u32')])]
    for n, e, a, s in x:
        c = ImplCfg(n, e, a, s)
        c.swap2 = True
        out.append(c)
    return out


SWAP2_OPS = ('{"swap2", "ctorDefault", "ctorCountVal", "ctorCountBig", "ctorFromVector", "pushBack", "popBack", "clear", "reserve", "reserveBig", '
             '"shrinkToFit", "destroy", "relocate", "eq", "assignMove", "swap", "iterate"}')


def swap2_configs(tier):
    S = lambda *a: a
    q = [
        ('x_s2_v_NTR', 'NTR', 'amcled', [S('small', 2, 'u32'), S('vector', 0, 'u32')]),
        ('x_s2u8_v_TR', 'TR', 'amcled', [S('small', 2, 'u8'), S('vector', 0, 'u32')]),
        ('x_s2u8_v_NTRM', 'NTRM', 'stdlike', [S('small', 2, 'u8'), S('vector', 0, 'u32')]),
        ('x_s2u8_vi8_TR', 'TR', 'amcled', [S('small', 2, 'u8'), S('vector', 0, 'i8')]),      # same width, different signedness
        ('x_f3_s2_NTR', 'NTR', 'stdlike', [S('fixed', 3), S('small', 2, 'u32')]),
        ('x_v_f2_TR', 'TR', 'stdlike', [S('vector', 0, 'u32'), S('fixed', 2)]),
        ('x_s2_s4_NTR', 'NTR', 'amcled', [S('small', 2, 'u32'), S('small', 4, 'u32')]),
        ('x_s2_vA2_NTR', 'NTR', 'amcled', [S('small', 2, 'u32'), S('vector', 0, 'u32', 'A2')]),
        ('x_f3_f5_TR', 'TR', 'stdlike', [S('fixed', 3), S('fixed', 5)]),
    ]
    t = [
        ('x_v_s3u8_NTR', 'NTR', 'stdlike', [S('vector', 0, 'u32'), S('small', 3, 'u8')]),
        ('x_s1_s3_TC', 'TC', 'amcled', [S('small', 1, 'u32'), S('small', 3, 'u32')]),
        ('x_s4_f2_NTR', 'NTR', 'amcled', [S('small', 4, 'u32'), S('fixed', 2)]),
        ('x_vu16_vu32_TR', 'TR', 'withrealloc', [S('vector', 0, 'u16'), S('vector', 0, 'u32')]),
        ('x_s2_s2A2_TR', 'TR', 'amcled', [S('small', 2, 'u32'), S('small', 2, 'u32', 'A2')]),
        ('x_f5_v_NTR', 'NTR', 'amcled', [S('fixed', 5), S('vector', 0, 'u32')]),
        ('x_s3i8_v_TC', 'TC', 'stdlike', [S('small', 3, 'i8'), S('vector', 0, 'u32')]),
    ]
    lst = q + (t if tier == 'thorough' else [])
    return [ImplCfg(n, e, a, s) for n, e, a, s in lst]


def suite_swap2(tier, seed):
    def compute(d):
        params = dict(Vals=[1, 2], MaxLen=3, MaxCnt=2, Its=['ptr'], RLens=[0, 1], Ops=SWAP2_OPS,
                      WalkLen=300, Alias=False)
        jobs = [(cfg, params) for cfg in swap2_configs(tier)]
        export_models(d, jobs)

        def one(job):
            cfg, params = job
            md, info = vecpipe.mc_export(d, cfg.model(), params, cfg.name)
            r = run_cfg_script(d, cfg, os.path.join(md, 'walks.script'), 'walks')
            r['mc'] = info
            r['kind'] = 'swap2'
            return r
        return dict(results=pmap(one, jobs, workers=8))
    return cached_suite('swap2', tier, seed, compute)


LIMIT_OPS = ('{"ctorDefault", "ctorCount", "ctorCountVal", "ctorIlist", "destroy", "pushBack", "pushBackRv", "emplaceBack", '
             '"emplace", "insert1", "insert1rv", "insertN", "insertRange", "insertIlist", "appendN", "appendNVal", "appendRange", '
             '"appendIlist", "assignN", "assignIlist", "resize", "resizeVal", "reserve", "at", "clear", "shrinkToFit", "iterate", '
             '"insertNHuge", "appendNHuge"}')


def limit_configs(tier):
    q = [
        ('lim_s2u8_TR', 'TR', 'amcled', [('small', 2, 'u8')], 'dyn'),
        ('lim_vi8_TC', 'TC', 'stdlike', [('vector', 0, 'i8')], 'dyn'),
        # 32-bit size_type: size() + count does not fit the size type itself
        ('lim_s2u32_TC', 'TC', 'amc', [('small', 2, 'u32')], 'dyn'),
        ('lim_vu32_NTR', 'NTR', 'stdlike', [('vector', 0, 'u32')], 'dyn'),
        ('lim_f1_NTR', 'NTR', 'stdlike', [('fixed', 1)], 'fixed'),
        ('lim_f2_TR', 'TR', 'stdlike', [('fixed', 2)], 'fixed'),
        ('lim_f3_NTR', 'NTR', 'stdlike', [('fixed', 3)], 'fixed'),
    ]
    t = [
        ('lim_vu8_NTR', 'NTR', 'amcled', [('vector', 0, 'u8')], 'dyn'),
        ('lim_vi8_NTR', 'NTR', 'stdlike', [('vector', 0, 'i8')], 'dyn'),
        ('lim_s3u8_TC', 'TC', 'amc', [('small', 3, 'u8')], 'dyn'),
        ('lim_s1i8_TR', 'TR', 'withrealloc', [('small', 1, 'i8')], 'dyn'),
        ('lim_f3_TC', 'TC', 'stdlike', [('fixed', 3)], 'fixed'),
        ('lim_f4_NTR', 'NTR', 'stdlike', [('fixed', 4)], 'fixed'),
    ]
    lst = q + (t if tier == 'thorough' else [])
    out = []
    for n, e, a, sl, kind in lst:
        c = ImplCfg(n, e, a, sl)
        c.limit_kind = kind
        out.append(c)
    return out


def suite_limit(tier, seed):
    def compute(d):
        jobs = []
        for cfg in limit_configs(tier):
            if cfg.limit_kind == 'dyn':
                params = dict(Vals=[1], MaxLen=2, MaxCnt=2 if tier == 'quick' else 3, Its=['ptr', 'input'],
                              RLens=[0, 1, 2] if tier == 'quick' else [0, 1, 2, 3],
                              Ops=LIMIT_OPS, WalkLen=200, Near=3, Alias=True)
            else:
                n = cfg.slots[0][1]['n']
                params = dict(Vals=[1, 2], MaxLen=n + 1, MaxCnt=2 if tier == 'quick' else 3,
                              Its=['ptr', 'input'] if tier == 'quick' else ALL_ITS, RLens=[0, 1, 2, 3], Ops='AllOps \\cup HugeOps', WalkLen=300)
            jobs.append((cfg, params))
        export_models(d, jobs)

        def one(job):
            cfg, params = job
            md, info = vecpipe.mc_export(d, cfg.model(), params, cfg.name)
            r = run_cfg_script(d, cfg, os.path.join(md, 'walks.script'), 'walks')
            r['mc'] = info
            r['kind'] = 'limit'
            return r
        return dict(results=pmap(one, jobs, workers=8))
    return cached_suite('limit', tier, seed, compute)


def growth_scripts(path, n, N, dynamic_limit=None):
    """append-only executions from several starting states (python only writes labels; TLC judges the recording)"""
    def L(op, n_=0, v=0):
        return '%s 1 0 0 %d %d 0 - 0 0\n' % (op, n_, v)
    with open(path, 'w') as f:
        starts = [[L('ctorDefault')], [L('ctorCountVal', max(N - 1, 0), 1)], [L('ctorDefault'), L('reserve', 10)],
                  [L('ctorCountVal', N + 5, 1), L('shrinkToFit')], [L('ctorCountVal', 1, 1), L('shrinkToFit')]]
        for i, st in enumerate(starts):
            for ln in st:
                f.write(ln)
            ops = ['pushBack', 'emplaceBack', 'pushBackRv']
            for k in range(n):
                f.write(L(ops[i % 3], 0, 1))
            f.write(L('reserve', min(n + 50, dynamic_limit or (n + 50))))
            f.write(L('shrinkToFit'))
            f.write('reset\n')


def growth_configs(tier):
    q = [
        ('g_v_TC_amcled', 'TC', 'amcled', [('vector', 0, 'u32')]),
        ('g_v_NTR_stdlike', 'NTR', 'stdlike', [('vector', 0, 'u32')]),
        ('g_s3_TR_withrealloc', 'TR', 'withrealloc', [('small', 3, 'u32')]),
        ('g_s2_NTR_amcled_u16', 'NTR', 'amcled', [('small', 2, 'u16')]),
        ('g_v_TR_amcled_u8', 'TR', 'amcled', [('vector', 0, 'u8')]),
        ('g_s4_TC_stdlike_u8', 'TC', 'stdlike', [('small', 4, 'u8')]),
    ]
    t = [
        ('g_v_TR_amcled_u64', 'TR', 'amcled', [('vector', 0, 'u64')]),
        ('g_s1_TC_stdlike', 'TC', 'stdlike', [('small', 1, 'u32')]),
        ('g_s4_NTR_stdlike', 'NTR', 'stdlike', [('small', 4, 'u32')]),
    ]
    lst = q + (t if tier == 'thorough' else [])
    return [ImplCfg(n, e, a, s) for n, e, a, s in lst]


def suite_growth(tier, seed):
    def compute(d):
        # the design model: TLC checks the reallocation bound for every n up to 2000 from every starting state
        md = workdir(d, 'mc_growth')
        vlib.copy_specs(md)
        rc, out, dt = vlib.tlc(md, 'Growth', 'Growth.cfg', workers=8, timeout=900, heap='6g')
        counts = vlib.parse_counts(out)
        if rc != 0 or counts is None or 'No error has been found' not in out:
            raise InfraError('MODEL-ERROR: Growth model failed\n' + out[-2000:])
        n = 300 if tier == 'quick' else 600      # (every recorded call carries all elements: the validation cost is quadratic in n)

        def one(cfg):
            N = cfg.slots[0][1]['n']
            limit = cfg.slots[0][1]['maxsz']
            script = os.path.join(d, 'growth_%s.script' % cfg.name)
            # a narrow size_type is filled up to its maximum (the growth is clamped there, not before)
            growth_scripts(script, min(n, limit - N - 6) if limit < 1000 else n, N, dynamic_limit=limit if limit < 1000 else None)
            r = run_cfg_script(d, cfg, script, 'growth', batch=1)
            r['kind'] = 'growth'
            r['growth_n'] = n
            return r
        rs = pmap(one, growth_configs(tier), workers=8)
        return dict(results=rs, growth_model=dict(states=counts[1], generated=counts[0], wall=dt))
    return cached_suite('growth', tier, seed, compute)


def suite_fault(tier, seed):
    def compute(d):
        cfgs = fault_configs(tier)
        jobs = []
        for cfg in cfgs:
            if getattr(cfg, 'swap2', False):
                params = dict(Vals=[1, 2], MaxLen=3, MaxCnt=2, Its=['ptr'], RLens=[0, 1], Ops=SWAP2_OPS, WalkLen=300, Alias=False)
            elif len(cfg.slots) == 1:
                params = dict(params_vec1(tier))
                params['MaxLen'] = 3 if tier == 'quick' else 4
                params['Its'] = ['ptr', 'input'] if tier == 'quick' else ['ptr', 'input', 'bidir', 'move']
            else:
                params = params_vec2(tier)
            jobs.append((cfg, params))
        uniq = {}
        for cfg, params in jobs:
            uniq.setdefault(json.dumps([cfg.model(), params], sort_keys=True), (cfg, params))
        vlib.pmap_proc(vecpipe.mc_export_job, [(d, cp[0].model(), cp[1], cp[0].name) for cp in uniq.values()], workers=4)

        def one(job):
            cfg, params = job
            md, info = vecpipe.mc_export(d, cfg.model(), params, cfg.name)
            script, finfo = vecpipe.fault_script(md, max_probes=30000 if tier == 'thorough' else 4000, seed=seed)
            r = run_cfg_script(d, cfg, script, 'faults', batch=300)
            r['mc'] = info
            r['fault_info'] = finfo
            r['kind'] = 'fault'
            return r
        return dict(results=pmap(one, jobs, workers=8))
    return cached_suite('fault', tier, seed, compute)


# ------------------------------------------------------------------------------------------------------------------
# sets
SET2_OPS = ('{"swap", "assignCopy", "assignMove", "eq", "lt", "ge", "mergeSame", "ctorIlist", "ctorCopy", "ctorMove", "destroy", '
            '"insert", "eraseKey", "mergeOther"}')


def set_configs(tier):
    F, S, R = 'flat', 'small', 'std'
    one = [
        ('fl_NTR_stdlike', 'NTR', 'stdlike', [(F, 'CmpT')]),
        ('fl_TR_amcled', 'TR', 'amcled', [(F, 'CmpT')]),
        ('fl_small2_NTR', 'NTR', 'amcled', [(F, 'Cmp', 0, None, 'small2')]),
        ('fl_fixed8_TC', 'TC', 'stdlike', [(F, 'Cmp', 0, None, 'fixed8')]),
        ('fl_stdvec_NTR', 'NTR', 'stdlike', [(F, 'CmpT', 0, None, 'std')]),
        ('sm2_NTR_stdlike', 'NTR', 'stdlike', [(S, 'CmpT', 2)]),
        ('sm3_TR_amcled_flat', 'TR', 'amcled', [(S, 'CmpT', 3, 'flat')]),
        ('sm1_TC_amc', 'TC', 'amc', [(S, 'Cmp', 1)]),
        ('ref_stdset_NTR', 'NTR', 'stdlike', [(R, 'CmpT')]),
    ]
    two = [
        ('p_fl_NTR', 'NTR', 'stdlike', [(F, 'Cmp')] * 2),
        ('p_flx_TR', 'TR', 'amcled', [(F, 'Cmp'), (F, 'Cmp2')]),
        ('p_flless_NTR', 'NTR', 'amcled', [(F, 'CmpL')] * 2),
        ('p_flgreater_TC', 'TC', 'stdlike', [(F, 'CmpG')] * 2),
        ('p_sm2_NTR', 'NTR', 'stdlike', [(S, 'Cmp', 2)] * 2),
        ('p_smx_NTR', 'NTR', 'amcled', [(S, 'Cmp', 2), (S, 'Cmp2', 3)]),
        ('p_sm2flat_TR', 'TR', 'stdlike', [(S, 'Cmp', 2, 'flat')] * 2),
        ('p_ref_stdset', 'NTR', 'stdlike', [(R, 'Cmp')] * 2),
    ]
    if tier == 'thorough':
        one += [
            ('fl_TC_amc', 'TC', 'amc', [(F, 'Cmp')]),
            ('fl_small6_TR', 'TR', 'withrealloc', [(F, 'CmpT', 0, None, 'small6')]),
            ('sm4_NTR_flat', 'NTR', 'stdlike', [(S, 'Cmp', 4, 'flat')]),
            ('sm2_TR_withrealloc', 'TR', 'withrealloc', [(S, 'CmpT', 2)]),
        ]
        two += [
            ('p_fl_small2_NTR', 'NTR', 'amcled', [(F, 'Cmp', 0, None, 'small2')] * 2),
            ('p_smxflat_NTR', 'NTR', 'stdlike', [(S, 'Cmp', 3, 'flat'), (S, 'Cmp2', 2, 'flat')]),
            ('p_ref_stdsetx', 'NTR', 'stdlike', [(R, 'Cmp'), (R, 'Cmp2')]),
        ]
    return [SetCfg(n, e, a, sl) for n, e, a, sl in one], [SetCfg(n, e, a, sl) for n, e, a, sl in two]


def run_set_script(d, cfg, script, tag, batch=200):
    binary = setpipe.build_set_harness(d, cfg)
    trace = os.path.join(workdir(d, 'traces'), '%s_%s.ndjson' % (cfg.name, tag))
    dt_run, out = vecpipe.record(binary, script, trace, batch=batch)
    v = setpipe.validate_set(d, trace, '%s_%s' % (cfg.name, tag))
    v.update(config=cfg.name, tag=tag, trace=trace, run_wall=dt_run, script=script, is_ref=cfg.is_ref())
    return v


def suite_sets(tier, seed):
    def compute(d):
        one, two = set_configs(tier)
        if tier == 'quick':
            p1 = dict(Keys=[0, 1, 2, 3], Cms=[0, 3], Its=['ptr', 'input'], RLens=[0, 1, 2], MaxLen=4, Ops='SAllOps', WalkLen=300)
            p2 = dict(Keys=[0, 1, 2], Cms=[0, 1], Its=['ptr'], RLens=[0, 2], MaxLen=3, Ops=SET2_OPS, WalkLen=300)
        else:
            p1 = dict(Keys=[0, 1, 2, 3, 4], Cms=[0, 1, 2, 3], Its=['ptr', 'input', 'bidir', 'move'], RLens=[0, 1, 2], MaxLen=4, Ops='SAllOps', WalkLen=400)
            p2 = dict(Keys=[0, 1, 2], Cms=[0, 1, 3], Its=['ptr'], RLens=[0, 2], MaxLen=3, Ops=SET2_OPS, WalkLen=400)
        jobs = [(c, p1) for c in one] + [(c, p2) for c in two]
        # stateless comparator types have one state only
        fixed_cm = {'p_flless_NTR': [0], 'p_flgreater_TC': [1]}
        jobs = [(c, dict(p, Cms=fixed_cm[c.name], Keys=[0, 1, 2, 3]) if c.name in fixed_cm else p) for c, p in jobs]
        uniq = {}
        for cfg, params in jobs:
            uniq.setdefault(json.dumps([cfg.model(), params], sort_keys=True), (cfg, params))
        vlib.pmap_proc(setpipe.smc_export_job, [(d, cp[0].model(), cp[1], cp[0].name) for cp in uniq.values()], workers=4)
        hint = setpipe.hint_theorem(d, range(7), [0, 1, 2, 3])
        merge = setpipe.merge_theorem(d, range(6 if tier == 'quick' else 7), [0, 1, 2, 3])

        def one_job(job):
            cfg, params = job
            md, info = setpipe.smc_export(d, cfg.model(), params, cfg.name)
            r = run_set_script(d, cfg, os.path.join(md, 'walks.script'), 'walks')
            r['mc'] = info
            r['kind'] = 'set1' if cfg.model()['KS'] == 1 else 'set2'
            return r
        results = pmap(one_job, jobs, workers=8)
        # simulated behaviours of a larger scope
        nsim = 300 if tier == 'quick' else 1500
        F, S, R = 'flat', 'small', 'std'
        sims = [SetCfg('sim_fl_NTR', 'NTR', 'stdlike', [(F, 'Cmp'), (F, 'Cmp'), (F, 'Cmp2')]),
                SetCfg('sim_sm_TR', 'TR', 'amcled', [(S, 'Cmp', 2), (S, 'Cmp', 2), (S, 'Cmp2', 4)]),
                SetCfg('sim_smflat_NTR', 'NTR', 'stdlike', [(S, 'CmpT', 3, 'flat'), (S, 'CmpT', 3, 'flat'), (F, 'CmpT')]),
                SetCfg('sim_ref_stdset', 'NTR', 'stdlike', [(R, 'Cmp'), (R, 'Cmp'), (R, 'Cmp2')])]
        psim = dict(Keys=list(range(8)), Cms=[0, 1, 2, 3], Its=ALL_ITS, RLens=[0, 1, 2, 3], MaxLen=7, Ops='SAllOps')

        def onesim(cfg):
            sd, info = setpipe.ssim(d, cfg.model(), psim, nsim, 60, seed, cfg.name)
            r = run_set_script(d, cfg, os.path.join(sd, 'sim.script'), 'sim')
            r['sim'] = info
            r['kind'] = 'setsim'
            return r
        results += pmap(onesim, sims, workers=6)
        return dict(results=results, hint=hint, merge=merge)
    return cached_suite('sets', tier, seed, compute)


def bigset_script(path, cms, big):
    """C19 beyond the model's scope: sets of n elements, lookups of every (sampled) rank present / absent, keyed insertion
    and erasure, insertion with the correct hint.  Python only writes labels; TLC judges the recording."""
    def L(op, v=0, h=0, n=0, cm=0, it='-', vs=()):
        return '%s 1 0 %d %d %d %d %s 0 %d%s\n' % (op, v, h, n, cm, it, len(vs), ''.join(' %d' % x for x in vs))
    sizes = list(range(0, 41)) + list(big)
    with open(path, 'w') as f:
        for cm in cms:
            desc = cm in (1, 3)
            mod = 2 if cm >= 2 else 1      # a coarse comparator orders by key // 2: elements and absent keys in distinct classes
            step = 2 * mod
            for n in sizes:
                keys = [step * i for i in range(n)]
                f.write(L('ctorRange', cm=cm, it='ptr', vs=keys))
                ranks = list(range(n + 1)) if n <= 40 else sorted(set([0, 1, n // 3, n // 2, n - 1, n] + list(range(0, n, max(1, n // 7)))))
                for r in ranks:
                    present = step * r if r < n else None
                    for key in [k for k in (present, step * r + mod) if k is not None and k >= 0]:
                        for op in ('find', 'contains', 'count', 'lowerBound', 'upperBound', 'equalRange', 'findK', 'lowerBoundK'):
                            f.write(L(op, v=key))
                    # insertion of the absent key 2r+1 with the correct hint, then restore
                    key = step * r + mod if r < n else step * n + mod
                    if r <= n:
                        # position of the first element not less than key in iteration order
                        pos = (r + 1 if r < n else n) if not desc else (n - r - 1 if r < n else 0)
                        pos = max(0, min(n, pos))
                        f.write(L('insertHint', v=key, h=pos))
                        f.write(L('eraseKey', v=key))
                        f.write(L('insert', v=key))
                        f.write(L('eraseKey', v=key))
                        # the same insertion with WRONG hints (a hint is only a hint), absent and present value
                        if n <= 40 or r in (0, 1, n // 2, n - 1, n):
                            for h in sorted(set([0, n, n // 2, max(0, pos - 9), min(n, pos + 9)])):
                                f.write(L('insertHint', v=key, h=h))
                                f.write(L('eraseKey', v=key))
                                if r < n:
                                    f.write(L('emplaceHint', v=step * r, h=h))
                        # a node handle re-inserted with the correct hint: extract an element, give it the value, insert
                        if r < n and (n <= 40 or r in (0, 1, n // 2, n - 1)):
                            f.write(L('extractKey', v=step * r))
                            f.write(L('nodeSetValue', v=key))
                            # (the set has one element less: the position of the first element not less than key moves)
                            hp = (r if not desc else n - r - 1)
                            f.write(L('insertNodeHint', h=max(0, min(n - 1, hp))))
                            f.write(L('eraseKey', v=key))
                            f.write(L('insert', v=step * r))
                # heterogeneous keys equivalent to MANY elements (class v of width w: the elements with (key / mod) / w == v)
                if n > 0:
                    for w in sorted(set([2, 6, 16, 2 * n + 2, max(2, n), max(2, n // 2)])):
                        top = (step * n - 1) // mod // w
                        for v in sorted(set([0, top // 2, top, top + 1])):
                            for op in ('countC', 'containsC', 'lowerBoundC', 'upperBoundC'):
                                f.write(L(op, v=v, n=w))
                if cm in (0, 1) and n > 0:
                    # correct hint at begin() (asc: a key below every element) and at end()
                    lowkey, pos_low = -1, (0 if not desc else n)
                    f.write(L('insertHint', v=lowkey, h=pos_low))
                    f.write(L('eraseKey', v=lowkey))
                    f.write(L('emplaceHint', v=lowkey, h=pos_low))
                    f.write(L('eraseKey', v=lowkey))
                f.write(L('destroy'))
                f.write('reset\n')


def suite_bigsets(tier, seed):
    def compute(d):
        F = 'flat'
        cfgs = [SetCfg('big_fl_TC_amc', 'TC', 'amc', [(F, 'CmpT')]),
                SetCfg('big_fl_small2_NTR', 'NTR', 'stdlike', [(F, 'CmpT', 0, None, 'small2')])]
        if tier == 'thorough':
            cfgs += [SetCfg('big_fl_stdvec_TR', 'TR', 'stdlike', [(F, 'CmpT', 0, None, 'std')]),
                     SetCfg('big_ref_stdset', 'TC', 'stdlike', [('std', 'CmpT')])]
        script = os.path.join(d, 'bigsets.script')
        bigset_script(script, [0, 1] if tier == 'quick' else [0, 1, 2, 3], [64, 128] if tier == 'quick' else [64, 128, 257, 512])

        def one(cfg):
            r = run_set_script(d, cfg, script, 'big', batch=20)
            r['kind'] = 'bigsets'
            return r
        return dict(results=pmap(one, cfgs, workers=4))
    return cached_suite('bigsets', tier, seed, compute)


SET_NO_FAULT = {'find', 'contains', 'count', 'lowerBound', 'upperBound', 'equalRange', 'findK', 'containsK', 'countK',
                'lowerBoundK', 'upperBoundK', 'iterate', 'relocate', 'destroy', 'eq', 'ne', 'lt', 'le', 'gt', 'ge', 'dropNode'}


def suite_setfault(tier, seed):
    def compute(d):
        F, S = 'flat', 'small'
        cfgs1 = [SetCfg('sf_fl_NTR_amcled', 'NTR', 'amcled', [(F, 'Cmp')]),
                 SetCfg('sf_fl_small2_TR', 'TR', 'stdlike', [(F, 'Cmp', 0, None, 'small2')]),
                 SetCfg('sf_sm2_NTR_stdlike', 'NTR', 'stdlike', [(S, 'Cmp', 2)]),
                 SetCfg('sf_sm2flat_NTR', 'NTR', 'amcled', [(S, 'Cmp', 2, 'flat')]),
                 # element type whose MOVE operations may throw
                 SetCfg('sf_fl_NTRM_stdlike', 'NTRM', 'stdlike', [(F, 'Cmp')]),
                 SetCfg('sf_fl_NTRA_amcled', 'NTRA', 'amcled', [(F, 'Cmp')])]
        cfgs2 = [SetCfg('sf_p_fl_NTR', 'NTR', 'stdlike', [(F, 'Cmp')] * 2),
                 SetCfg('sf_p_flx_NTR', 'NTR', 'amcled', [(F, 'Cmp'), (F, 'Cmp2')]),
                 SetCfg('sf_p_sm2_NTR', 'NTR', 'stdlike', [(S, 'Cmp', 2)] * 2)]
        if tier == 'thorough':
            cfgs1 += [SetCfg('sf_fl_TR_withrealloc', 'TR', 'withrealloc', [(F, 'CmpT')]),
                      SetCfg('sf_sm3_TR_amcled', 'TR', 'amcled', [(S, 'CmpT', 3)]),
                      SetCfg('sf_sm2_NTRM_stdlike', 'NTRM', 'stdlike', [(S, 'Cmp', 2)]),
                      SetCfg('sf_sm2flat_NTRM', 'NTRM', 'amcled', [(S, 'Cmp', 2, 'flat')])]
            cfgs2 += [SetCfg('sf_p_smx_NTR', 'NTR', 'amcled', [(S, 'Cmp', 2), (S, 'Cmp2', 3)])]
        p1 = dict(Keys=[0, 1, 2] if tier == 'quick' else [0, 1, 2, 3], Cms=[0, 3], Its=['ptr', 'input'], RLens=[0, 1, 2], MaxLen=3,
                  Ops='SAllOps', WalkLen=300)
        p2 = dict(Keys=[0, 1, 2], Cms=[0, 1], Its=['ptr'], RLens=[0, 2], MaxLen=3,
                  Ops='{"mergeSame", "mergeOther", "swap", "assignCopy", "assignMove", "ctorIlist", "ctorCopy", "ctorMove", "destroy", "insert"}',
                  WalkLen=300)
        jobs = [(c, p1) for c in cfgs1] + [(c, p2) for c in cfgs2]
        uniq = {}
        for cfg, params in jobs:
            uniq.setdefault(json.dumps([cfg.model(), params], sort_keys=True), (cfg, params))
        vlib.pmap_proc(setpipe.smc_export_job, [(d, cp[0].model(), cp[1], cp[0].name) for cp in uniq.values()], workers=4)

        def one(job):
            cfg, params = job
            md, info = setpipe.smc_export(d, cfg.model(), params, cfg.name)
            script, finfo = vecpipe.fault_script(
                md, max_probes=25000 if tier == 'thorough' else 3500, seed=seed, label_fn=setpipe.slabel_line,
                epilogue=lambda c: ['?insert %d 0 1 0 0 0 - 0 0' % c, '?eraseKey %d 0 1 0 0 0 - 0 0' % c, '?clear %d 0 0 0 0 0 - 0 0' % c],
                no_fault_ops=SET_NO_FAULT)
            r = run_set_script(d, cfg, script, 'faults', batch=300)
            r['mc'] = info
            r['fault_info'] = finfo
            r['kind'] = 'setfault'
            return r
        return dict(results=pmap(one, jobs, workers=8))
    return cached_suite('setfault', tier, seed, compute)


SET_PROPS = {'C03', 'C04', 'C11', 'C12', 'C19'}

# ------------------------------------------------------------------------------------------------------------------
VEC_PROPS = {'C01', 'C02', 'C05', 'C06', 'C07', 'C10'}

RELEVANT_STAT = {'C20': 'constOps', 'C16': 'ops', 'C15': 'ops', 'C03': 'ops', 'C04': 'ops', 'C11': 'iterOps', 'C12': 'hints', 'C19': 'lookups', 'C18': 'ops', 'C08': 'limitExc', 'C13': 'ops', 'C14': 'ops', 'C09': 'faults', 'C01': 'ops', 'C02': 'prims', 'C05': 'pristineOps', 'C06': 'allocEvents', 'C07': 'stable', 'C10': 'alias'}


def make_replay(prop, r, v):
    d = workdir('replay')
    path = os.path.join(d, '%s_%s_%s_%d.json' % (prop, r['config'], r['tag'], v['l']))
    # (a run that was aborted - e.g. by ThreadSanitizer - leaves no recording)
    have = bool(r.get('trace')) and os.path.exists(r['trace'])
    labels = execution_slice(r['trace'], v['l']) if have else []
    ev = read_lines(r['trace'], [v['l']]).get(v['l'], '') if have else ''
    json.dump(dict(property=prop, config=r['config'], suite_kind=r.get('kind'), line=v['l'], why=v['why'], labels=labels,
                   event=ev[:4000]), open(path, 'w'), indent=1)
    return path, (labels[-1] if labels else None)


def collect(prop, suite_results):
    viols, model_errors = [], []
    for r in suite_results:
        if r.get('rejected_at'):
            model_errors.append('TLC could not evaluate line %d of %s: %s' % (r['rejected_at'], r['trace'], r.get('tlc_tail', '')[-600:]))
        for v in r['viol']:
            if v['p'] == 'MODEL':
                model_errors.append('%s line %d: %s' % (r['config'], v['l'], v['why']))
            elif r.get('is_ref'):
                # the reference implementation (std::vector) disagrees with the specification: the spec is wrong
                if v['p'] in ('C01', 'C10', 'C08', 'C03', 'C04', 'C11', 'C12'):
                    model_errors.append('specification rejects the reference implementation (std::vector / std::set): %s line %d: %s' % (r['config'], v['l'], v['why']))
            elif v['p'] == prop:
                path, label = make_replay(prop, r, v)
                viols.append(dict(config=r['config'], line=v['l'], why=v['why'], replay=path, label=label))
    return viols, model_errors


def evidence_vec(prop, res, extra_notes=None):
    rs = res['results']
    models = {}
    for r in rs:
        if 'mc' in r:
            models[json.dumps([r['mc']['model'], r['mc']['params']], sort_keys=True)] = r['mc']
    states = sum(m['states'] for m in models.values())
    trans = sum(m['transitions'] for m in models.values())
    execs = sum(r['stats'].get('execs', 0) for r in rs if not r['viol'])
    ops = sum(r['stats'].get('ops', 0) for r in rs)
    key = RELEVANT_STAT.get(prop, 'ops')
    relevant = sum(r['stats'].get(key, 0) for r in rs)
    sample = next((m['sample_walk'] for m in models.values() if m.get('sample_walk')), [])
    cov = dict(states=states, transitions=trans, traces_validated_against_impl=execs,
               samples=[dict(kind='covering walk prefix (labels replayed on the implementation)', labels=sample)],
               implementation_configs=[dict(config=r['config'], kind=r.get('kind'), tag=r['tag'], events=r['lines'],
                                            ops=r['stats'].get('ops'), execs=r['stats'].get('execs'),
                                            design_drift=r['stats'].get('drift'), relevant=r['stats'].get(key),
                                            skipped=r['stats'].get('skipped'),
                                            edges_covered=r.get('mc', {}).get('transitions')) for r in rs],
               ops_validated=ops, relevant_steps=relevant, relevant_stat=key,
               models=[dict(model=m['model'], params={k: v for k, v in m['params'].items()}, states=m['states'],
                            transitions=m['transitions'], ops=m['ops']) for m in models.values()],
               exhaustive=all(r['stats'].get('skipped', 0) == 0 for r in rs),
               design_drift=sum(r['stats'].get('drift', 0) for r in rs),
               suite_wall_s=round(res.get('wall', 0), 1), suite_cached=res.get('cached', False))
    return dict(level='model_checking', coverage=cov,
                assumptions=['small-scope exhaustiveness: every transition of the listed TLC models was replayed on every listed '
                             'implementation configuration; beyond the scope only simulated behaviours',
                             'the harness executes labels faithfully and records honestly (it contains no expected values)',
                             'TLC 1.8 and the JSON/IOUtils community modules'])


def suite_memalgo(tier, seed):
    def compute(d):
        maxn = 3 if tier == 'quick' else 4
        md = workdir(d, 'mc_memalgo')
        vlib.copy_specs(md)
        with open(os.path.join(md, 'MCMemAlgo.cfg'), 'w') as f:
            f.write('SPECIFICATION Spec\nCONSTANT MaxN = %d\nINVARIANT Sane\nCHECK_DEADLOCK FALSE\nACTION_CONSTRAINT Export\n' % maxn)
        outp = os.path.join(md, 'export.txt')
        rc, edges, tail, dt = vlib.tlc_export(md, 'MCMemAlgo', 'MCMemAlgo.cfg', outp, workers=4, timeout=900, heap='4g')
        counts = vlib.parse_counts(tail)
        if rc != 0 or counts is None or 'No error has been found' not in tail:
            raise InfraError('MODEL-ERROR: MCMemAlgo failed\n' + tail[-2000:])
        script = os.path.join(md, 'labels.script')
        with open(script, 'w') as f:
            for e in edges:
                l = e['l']
                f.write('%s %d %s %s %s %d\n' % (l['a'], l['n'], l['sit'], l['dit'], l['cat'], l['k']))
        cells = [('g++', s_) for s_ in ('c++11', 'c++14', 'c++17', 'c++20')]
        if tier == 'thorough':
            cells += [('clang++', s_) for s_ in ('c++11', 'c++14', 'c++17', 'c++20')]

        def one(cell):
            comp, std = cell
            name = 'mem_%s_%s' % (comp.replace('+', 'p'), std.replace('+', 'p'))
            binary = os.path.join(workdir(d, 'bin'), name)
            vlib.build(os.path.join(vlib.HARNESS, 'mem_main.cpp'), binary, [], std=std, compiler=comp)
            trace = os.path.join(workdir(d, 'traces'), name + '.ndjson')
            rc2, out, dt2 = vlib.run([binary, script, trace, name], timeout=600)
            if rc2 != 0:
                # a crash of the implementation inside an algorithm: report as a violation of the in-flight label
                return dict(config=name, tag='labels', trace=trace, lines=0, viol=[dict(p='C15', l=1, why='harness crashed (rc=%d): %s' % (rc2, out[-200:]))],
                            stats={}, is_ref=False, kind='memalgo', wall=0, run_wall=dt2, script=script)
            vd = workdir(d, 'val_' + name)
            vlib.copy_specs(vd)
            r = vlib.validate(vd, 'TraceMemAlgo', 'TraceMemAlgo.cfg', trace, heap='3g')
            r.update(config=name, tag='labels', trace=trace, run_wall=dt2, script=script, is_ref=False, kind='memalgo')
            r['stats']['execs'] = r['stats'].get('ops', 0)
            return r
        rs = pmap(one, cells, workers=8)
        for r in rs:
            r['mc'] = dict(states=counts[1], transitions=len(edges), model=dict(module='MemAlgo', MaxN=maxn), params=dict(MaxN=maxn),
                           ops={}, sample_walk=[e['l'] for e in edges[:6]])
        return dict(results=rs)
    return cached_suite('memalgo', tier, seed, compute)


def suite_static(tier, seed):
    def compute(d):
        import re
        md = workdir(d, 'mc_static')
        vlib.copy_specs(md)
        if tier == 'quick':
            consts = ('Sizes = {1,2,3,4,8,12,16,24}', 'Aligns = {1,2,4,8,16}', 'Ns = {0,1,2,3,4,7,8,9,16,33,255,256,65535,65536}')
        else:
            consts = ('Sizes = {1,2,3,4,5,6,7,8,9,10,11,12,13,14,15,16,17,18,19,20,21,22,23,24}', 'Aligns = {1,2,4,8,16}',
                      'Ns = {0,1,2,3,4,5,6,7,8,9,10,11,12,13,14,15,16,17,20,24,31,32,33,40,255,256,65535,65536}')
        with open(os.path.join(md, 'Static.cfg'), 'w') as f:
            f.write('SPECIFICATION Spec\nCONSTANTS\n %s\n %s\n %s\nINVARIANT Emit\nCHECK_DEADLOCK FALSE\n' % consts)
        outp = os.path.join(md, 'rows.txt')
        rc, _, dt = vlib.tlc(md, 'Static', 'Static.cfg', workers=4, outfile=outp, timeout=900, heap='4g')
        rows = []
        tail = []
        for ln in open(outp):
            if ln.startswith('<<"ROW", '):
                rows.append(json.loads(json.loads(ln.rstrip('\n')[9:-2])))
            elif not ln.startswith('<<'):
                tail.append(ln)
        tail = ''.join(tail)
        if rc != 0 or 'No error has been found' not in tail or not rows:
            raise InfraError('MODEL-ERROR: Static model failed\n' + tail[-2000:])
        rows.sort(key=lambda r: (r['size'], r['align'], r['cat'], r['n']))
        rows_path = os.path.join(md, 'rows.ndjson')
        with open(rows_path, 'w') as f:
            for r in rows:
                f.write(json.dumps(r) + '\n')
        # split into translation units of <= 600 rows (memory / parallelism)
        import gen_static
        tus = []
        for i in range(0, len(rows), 600):
            tu = os.path.join(md, 'static_%d.cpp' % (i // 600))
            with open(tu, 'w') as f:
                gen_static.emit_offset(rows[i:i + 600], f, i)
            tus.append(tu)
        nasserts = sum(open(t).read().count('SA(') for t in tus)
        stds = ['c++11', 'c++17', 'c++20'] if tier == 'quick' else ['c++11', 'c++14', 'c++17', 'c++20']
        comps = ['g++'] if tier == 'quick' else ['g++', 'clang++']
        cells = [(c, s_, t) for c in comps for s_ in stds for t in tus]

        def one(cell):
            comp, std, tu = cell
            cmd = [comp, '-std=' + std, '-fsyntax-only', '-w', '-ferror-limit=0' if comp == 'clang++' else '-fmax-errors=0', '-DAMC_NONSTD_FEATURES',
                   '-I' + os.path.join(vlib.REPO, 'include'), '-I' + vlib.HARNESS, tu]
            rc2, out, dt2 = vlib.run(cmd, timeout=1200)
            fails = sorted(set(re.findall(r'VERIF_STATIC C17 row=(\d+) ([^"\n]*)', out)))
            other = rc2 != 0 and not fails
            return dict(comp=comp, std=std, tu=os.path.basename(tu), fails=fails, other=out[-1500:] if other else '', wall=dt2)
        cs = pmap(one, cells, workers=8)
        viol = []
        for c in cs:
            for rown, what in c['fails'][:30]:
                if 'relocatable' in what or 'pair<' in what:
                    viol.append(dict(p='C14', l=int(rown) + 1, why='%s [%s -std=%s]' % (what.strip(), c['comp'], c['std'])))
                viol.append(dict(p='C17', l=int(rown) + 1, why='%s [%s -std=%s] row %s' % (what.strip(), c['comp'], c['std'], json.dumps(rows[int(rown)]) if int(rown) < len(rows) else rown)))
            if c['other']:
                viol.append(dict(p='C17', l=1, why='translation unit does not compile (%s -std=%s): %s' % (c['comp'], c['std'], c['other'][-300:])))
        r = dict(config='static_matrix', tag='static', trace=rows_path, lines=len(rows), viol=viol, is_ref=False, kind='static', wall=sum(c['wall'] for c in cs),
                 run_wall=0, script=rows_path, stats=dict(ops=nasserts * len(stds) * len(comps), execs=len(cells), rows=len(rows)),
                 static=dict(rows=len(rows), asserts_per_cell=nasserts, cells=[(c['comp'], c['std']) for c in cs if c['tu'] == 'static_0.cpp'],
                             sample_rows=rows[:3] + rows[len(rows) // 2:len(rows) // 2 + 2]))
        return dict(results=[r])
    return cached_suite('static', tier, seed, compute)


C16_COMMON = ('AllOps \\ {"eraseVal", "eraseIf", "relocate", "swap2", "ctorFromVector", "popBackVal", "appendN", "appendNVal", "appendRange", '
              '"appendIlist", "reserveBig"}')
C16_PAIR = ('{"assignCopy", "assignMove", "swap", "freeSwap", "eq", "ne", "lt", "le", "gt", "ge", "ctorCopy", "ctorMove", "destroy", "ctorDefault", '
            '"ctorCountVal", "pushBack", "popBack", "clear", "reserve", "shrinkToFit", "assignN", "insert1", "erase1"}')
C16_EXTRA1 = '{"ctorDefault", "ctorCountVal", "destroy", "pushBack", "popBack", "popBackVal", "appendN", "appendNVal", "appendRange", "appendIlist", "reserve"}'
C16_EXTRA2 = '{"ctorDefault", "ctorCountVal", "destroy", "pushBack", "popBack", "clear", "reserve", "shrinkToFit", "swap2", "eq"}'
C16_TYPES = {1: ('vector', 0, 'u32'), 2: ('small', 2, 'u32'), 3: ('fixed', 6), 4: ('vector', 0, 'u32'), 5: ('small', 3, 'u32'),
             6: ('small', 2, 'u32'),     # 6: element larger than a pointer
             7: ('vector', 0, 'u32')}    # 7: raw signed char elements, walks with a negative value


C16S_COMMON = ('{"ctorDefault", "ctorRange", "ctorIlist", "destroy", "insert", "insertRv", "emplace", "insertHint", "insertHintRv", "emplaceHint", '
               '"insertRange", "insertIlist", "assignIlist", "eraseKey", "erasePos", "eraseRange", "eraseLoop", "clear", "find", "contains", "count", '
               '"lowerBound", "upperBound", "equalRange", "iterate"}')
C16S_PAIR = ('{"ctorIlist", "ctorCopy", "ctorMove", "destroy", "insert", "eraseKey", "swap", "assignCopy", "assignMove", "eq", "ne", "lt", "le", '
             '"gt", "ge", "mergeSame"}')
C16S_EXTRA = ('{"ctorDefault", "ctorFromVec", "ctorIlist", "destroy", "insert", "eraseKey", "assignVec", "stealVector", "front", "back", "index", '
              '"at", "reserve", "shrinkToFit"}')
C16S_TYPES = {1: ('flat', 'Cmp'), 2: ('small', 'Cmp', 2), 3: ('flat', 'Cmp', 0, None, 'small2')}   # 2: C++17 and later only


def suite_matrix(tier, seed):
    def compute(d):
        import itertools
        types = [3, 4, 6, 7] if tier == 'quick' else [1, 2, 3, 4, 5, 6, 7]
        if tier == 'quick':
            cells = [('g++', 'c++11', False, False, '-O0'), ('g++', 'c++14', True, True, '-O2'), ('g++', 'c++17', False, True, '-O2'),
                     ('g++', 'c++20', True, False, '-O0'), ('g++', 'c++11', True, True, '-O2'), ('g++', 'c++20', False, True, '-O0')]
        else:
            cells = [(c, s_, x, n, o) for c in ('g++', 'clang++') for s_ in ('c++11', 'c++14', 'c++17', 'c++20') for x in (False, True)
                     for n in (False, True) for o in ('-O0', '-O2')]
        # scripts per type, from the TLC models
        scripts = {}
        jobs = []
        for ty in types:
            sl = C16_TYPES[ty]
            c1 = ImplCfg('c16_t%d' % ty, 'TC', 'amc', [sl])
            c2 = ImplCfg('c16_p%d' % ty, 'TC', 'amc', [sl, sl])
            vals = [-1, 2] if ty == 7 else [1, 2]
            p_common = dict(Vals=vals, MaxLen=3, MaxCnt=2, Its=['ptr', 'input'], RLens=[0, 1, 2], Ops=C16_COMMON, WalkLen=300)
            p_pair = dict(Vals=vals, MaxLen=2, MaxCnt=1, Its=['ptr'], RLens=[0, 1], Ops=C16_PAIR, WalkLen=300, Alias=False)
            p_x1 = dict(Vals=[1, 2], MaxLen=3, MaxCnt=2, Its=['ptr', 'input'], RLens=[0, 1, 2], Ops=C16_EXTRA1, WalkLen=300)
            p_x2 = dict(Vals=[1, 2], MaxLen=2, MaxCnt=1, Its=['ptr'], RLens=[0, 1], Ops=C16_EXTRA2, WalkLen=300, Alias=False)
            jobs += [(c1, p_common), (c2, p_pair), (c1, p_x1), (c2, p_x2)]
            scripts[ty] = dict(common=[(c1, p_common), (c2, p_pair)], extra=[(c1, p_x1), (c2, p_x2)])
        export_models(d, jobs)
        models = []
        for ty in types:
            for kind in ('common', 'extra'):
                path = os.path.join(d, 'c16_t%d_%s.script' % (ty, kind))
                with open(path, 'w') as f:
                    for cfg, params in scripts[ty][kind]:
                        md, info = vecpipe.mc_export(d, cfg.model(), params, cfg.name)
                        f.write(open(os.path.join(md, 'walks.script')).read())
                        models.append(info)
                scripts[ty][kind + '_path'] = path

        # the same for the sets (FlatSet in every cell, SmallSet from C++17 on)
        set_types = [1, 2] if tier == 'quick' else [1, 2, 3]
        sscripts = {}
        for ty in set_types:
            sl = C16S_TYPES[ty]
            s1 = SetCfg('c16s_t%d' % ty, 'TC', 'amc', [sl])
            s2 = SetCfg('c16s_p%d' % ty, 'TC', 'amc', [sl, sl])
            ps_common = dict(Keys=[0, 1, 2, 3], Cms=[0, 3], Its=['ptr', 'input'], RLens=[0, 1, 2], MaxLen=3, Ops=C16S_COMMON, WalkLen=300)
            ps_pair = dict(Keys=[0, 1, 2], Cms=[0, 1], Its=['ptr'], RLens=[0, 2], MaxLen=3, Ops=C16S_PAIR, WalkLen=300)
            ps_extra = dict(Keys=[0, 1, 2], Cms=[0, 3], Its=['ptr'], RLens=[0, 1, 2], MaxLen=3, Ops=C16S_EXTRA, WalkLen=300)
            sscripts[ty] = dict(common=[(s1, ps_common), (s2, ps_pair)], extra=[(s1, ps_extra)] if sl[0] == 'flat' else [])
        sjobs = [cp for ty in set_types for kind in ('common', 'extra') for cp in sscripts[ty][kind]]
        suniq = {}
        for cfg, params in sjobs:
            suniq.setdefault(json.dumps([cfg.model(), params], sort_keys=True), (cfg, params))
        vlib.pmap_proc(setpipe.smc_export_job, [(d, cp[0].model(), cp[1], cp[0].name) for cp in suniq.values()], workers=4)
        for ty in set_types:
            for kind in ('common', 'extra'):
                if not sscripts[ty][kind]:
                    continue
                path = os.path.join(d, 'c16s_t%d_%s.script' % (ty, kind))
                with open(path, 'w') as f:
                    for cfg, params in sscripts[ty][kind]:
                        md, info = setpipe.smc_export(d, cfg.model(), params, cfg.name)
                        f.write(open(os.path.join(md, 'walks.script')).read())
                        models.append(info)
                sscripts[ty][kind + '_path'] = path

        # heterogeneous pair (different size_types: swap2 has separate pre-C++17 / C++17 code for the size words): the full
        # harness needs C++17, so this family covers the {c++17, c++20} x {NDEBUG, assertions} x {-O0, -O2} cells
        hcfg = ImplCfg('c16h_s2u8_v', 'TR', 'amcled', [('small', 2, 'u8'), ('vector', 0, 'u32')])
        hparams = dict(Vals=[1, 2], MaxLen=3, MaxCnt=1, Its=['ptr', 'input'], RLens=[0, 2], WalkLen=300, Alias=False,
                       Ops='{"swap2", "ctorDefault", "ctorCountVal", "pushBack", "popBack", "clear", "reserve", "reserveBig", "shrinkToFit", "destroy", "insertRange"}')
        hmd, hinfo = vecpipe.mc_export(d, hcfg.model(), hparams, hcfg.name)
        models.append(hinfo)
        hcells = sorted(set((c[0], c[1], c[3], c[4]) for c in cells if c[1] in ('c++17', 'c++20')))
        if tier == 'quick':
            hcells = [('g++', 'c++17', False, '-O0'), ('g++', 'c++17', True, '-O2'), ('g++', 'c++20', False, '-O2'), ('g++', 'c++20', True, '-O0')]

        def het(cell):
            comp, std, ndebug, opt = cell
            name = 'c16h_%s_%s_%s_%s' % (comp.replace('+', 'p'), std.replace('+', 'p'), 'nd' if ndebug else 'as', opt[1:])
            binary = os.path.join(workdir(d, 'bin'), name)
            defs = [x for x in hcfg.defines() if not x.startswith('CFG_NAME=')] + ['CFG_NAME="c16h_s2u8_v"']
            try:
                vlib.build(os.path.join(vlib.HARNESS, 'vec_main.cpp'), binary, defs, std=std, opt=opt, extra=['-DNDEBUG'] if ndebug else [], compiler=comp)
            except InfraError as e:
                return dict(name=name, cell=cell, ty='h', build_error=str(e)[-1500:])
            trace = os.path.join(workdir(d, 'traces'), name + '_common.ndjson')
            rc2, out2, dt2 = vlib.run([binary, os.path.join(hmd, 'walks.script'), trace, '200'], timeout=900)
            if rc2 != 0:
                return dict(name=name, cell=cell, ty='h', traces=dict(common=dict(trace=trace, crashed='rc=%d %s' % (rc2, out2[-300:]))))
            v = vecpipe.validate_vec(d, trace, name)
            v['trace'] = trace
            # compared across cells as the observable results only: label, return value / exception, and per container
            # existence, size, emptiness, capacity, inline flag and values (address tokens depend on which addresses malloc
            # happens to reuse, the configuration line names the language standard)
            norm = trace + '.norm'
            with open(trace) as fi, open(norm, 'w') as fo:
                for i, ln in enumerate(fi):
                    if i == 0:
                        continue
                    e = json.loads(ln)
                    if e.get('e') == 'op':
                        e = dict(e='op', lbl=e['lbl'], ret=e['ret'],
                                 obs=[{k: o.get(k) for k in ('ex', 'size', 'empty', 'cap', 'inl', 'vals', 'maxsz')} for o in e['obs']])
                    fo.write(json.dumps(e, sort_keys=True) + '\n')
            v['cmp'] = norm
            return dict(name=name, cell=cell, ty='h', traces=dict(common=v))

        def cellname(cell):
            comp, std, extras, ndebug, opt = cell
            return '%s_%s_%s_%s_%s' % (comp.replace('+', 'p'), std.replace('+', 'p'), 'x' if extras else 'p', 'nd' if ndebug else 'as', opt[1:])

        def one(job):
            cell, fam, ty = job
            comp, std, extras, ndebug, opt = cell
            isset = fam == 'set'
            name = ('c16s_%s_t%d' if isset else 'c16_%s_t%d') % (cellname(cell), ty)
            binary = os.path.join(workdir(d, 'bin'), name)
            defs = [('C16S_TYPE=%d' if isset else 'C16_TYPE=%d') % ty] + (['NDEBUG'] if ndebug else [])
            cmd = [comp, '-std=' + std, opt, '-w', '-I' + os.path.join(vlib.REPO, 'include')] + ['-D' + x for x in defs] + \
                  (['-DAMC_NONSTD_FEATURES'] if extras else []) + [os.path.join(vlib.HARNESS, 'c16s_main.cpp' if isset else 'c16_main.cpp'), '-o', binary]
            rc, out, dt = vlib.run(cmd, timeout=900)
            tyk = 's%d' % ty if isset else ty
            if rc != 0:
                return dict(name=name, cell=cell, ty=tyk, build_error=out[-1500:])
            res = dict(name=name, cell=cell, ty=tyk, traces={})
            sc = sscripts[ty] if isset else scripts[ty]
            for kind in (['common', 'extra'] if extras else ['common']):
                if kind + '_path' not in sc:
                    continue
                trace = os.path.join(workdir(d, 'traces'), '%s_%s.ndjson' % (name, kind))
                rc2, out2, dt2 = vlib.run([binary, sc[kind + '_path'], trace], timeout=900)
                if rc2 != 0:
                    res['traces'][kind] = dict(trace=trace, crashed='rc=%d %s' % (rc2, out2[-300:]))
                    continue
                v = (setpipe.validate_set if isset else vecpipe.validate_vec)(d, trace, '%s_%s' % (name, kind))
                v['trace'] = trace
                res['traces'][kind] = v
            return res
        hruns = pmap(het, hcells, workers=4)
        runs = hruns + pmap(one, [(c, 'vec', t) for c in cells for t in types] +
                    [(c, 'set', t) for c in cells for t in set_types if not (t == 2 and c[1] in ('c++11', 'c++14'))], workers=8)
        # byte-for-byte comparison of the transcripts across cells (config line excluded)
        import hashlib
        results = []
        digests = {}
        for rr in runs:
            for kind, v in rr.get('traces', {}).items():
                if 'crashed' in v:
                    continue
                with open(v.get('cmp', v['trace']), 'rb') as f:
                    digests[(rr['ty'], kind, rr['name'])] = hashlib.sha256(f.read()).hexdigest()
        for rr in runs:
            viol = []
            lines = 0
            stats = dict(ops=0, execs=0, drift=0, skipped=0)
            if rr.get('build_error'):
                viol.append(dict(p='C16', l=1, why='does not compile in this cell: ' + rr['build_error'][-300:]))
            for kind, v in rr.get('traces', {}).items():
                if 'crashed' in v:
                    viol.append(dict(p='C16', l=1, why='program crashed in this cell (%s): %s' % (kind, v['crashed'])))
                    continue
                lines += v['lines']
                for k_ in ('ops', 'execs', 'drift', 'skipped'):
                    stats[k_] += v['stats'].get(k_, 0)
                for x in v['viol']:
                    viol.append(dict(p='C16' if x['p'] != 'MODEL' else 'MODEL', l=x['l'], why='[%s] differs from the specification (%s): %s' % (kind, x['p'], x['why'])))
                if v.get('rejected_at'):
                    viol.append(dict(p='MODEL', l=v['rejected_at'], why='TLC could not evaluate the transcript'))
                ref = sorted(n for (ty, kd, n) in digests if ty == rr['ty'] and kd == kind)[0]
                if digests[(rr['ty'], kind, rr['name'])] != digests[(rr['ty'], kind, ref)]:
                    # first differing line
                    sfx = '.norm' if 'cmp' in v else ''
                    a = open(v['trace'] + sfx).read().split('\n')
                    b = open(os.path.join(d, 'traces', '%s_%s.ndjson%s' % (ref, kind, sfx))).read().split('\n')
                    ln = next((i for i in range(0, min(len(a), len(b))) if a[i] != b[i]), min(len(a), len(b)))
                    viol.append(dict(p='C16', l=ln + 1, why='[%s] transcript differs from cell %s at line %d' % (kind, ref, ln + 1)))
            tr = next((v['trace'] for v in rr.get('traces', {}).values() if 'trace' in v), '')
            results.append(dict(config=rr['name'], tag='matrix', trace=tr, lines=lines, viol=viol, is_ref=False, kind='matrix', wall=0, run_wall=0,
                                script='', stats=stats))
        # compile probes: extras absent in pedantic mode, SmallSet absent before C++17
        probe_viol = []
        nprobes = 0

        def probe(args):
            comp, std, extras, n = args
            cmd = [comp, '-std=' + std, '-fsyntax-only', '-w', '-I' + os.path.join(vlib.REPO, 'include'), '-DPROBE=%d' % n] + \
                  (['-DAMC_NONSTD_FEATURES'] if extras else []) + [os.path.join(vlib.HARNESS, 'c16_probe.cpp')]
            rc, out, dt = vlib.run(cmd, timeout=300)
            return (comp, std, extras, n, rc == 0)
        pj = [('g++', s_, x, n) for s_ in ('c++11', 'c++17', 'c++20') for x in (False, True) for n in range(0, 13)]
        pj += [('g++', s_, True, 20) for s_ in ('c++11', 'c++14', 'c++17', 'c++20')]
        for comp, std, extras, n, ok in pmap(probe, pj, workers=8):
            nprobes += 1
            if n == 20:
                want = std in ('c++17', 'c++20')
            elif n == 0:
                want = True
            elif n == 11 and std == 'c++11':
                want = extras
            else:
                want = extras
            if ok != want:
                probe_viol.append(dict(p='C16', l=1, why='compile probe %d (%s, extras %s): %s' % (
                    n, std, 'on' if extras else 'off', 'a non-standard extra is PRESENT in pedantic mode' if ok else 'does not compile although the feature is offered')))
        results.append(dict(config='c16_compile_probes', tag='probes', trace='', lines=nprobes, viol=probe_viol, is_ref=False, kind='matrix', wall=0,
                            run_wall=0, script='', stats=dict(ops=nprobes, execs=nprobes, drift=0, skipped=0)))
        for r_ in results:
            r_['mc'] = dict(states=sum(m['states'] for m in models), transitions=sum(m['transitions'] for m in models),
                            model=dict(module='Vec', note='models of the C16 corpus'), params=dict(cells=len(cells), types=types, set_types=set_types), ops={}, sample_walk=models[0]['sample_walk'])
        return dict(results=results)
    return cached_suite('matrix', tier, seed, compute)


def suite_readers(tier, seed):
    def compute(d):
        # the design-level model: every interleaving of readers and a writer on another container
        md = workdir(d, 'mc_readers')
        vlib.copy_specs(md)
        rc, out, dt = vlib.tlc(md, 'Readers', 'Readers.cfg', workers=4, timeout=600, heap='4g')
        counts = vlib.parse_counts(out)
        if rc != 0 or counts is None or 'No error has been found' not in out:
            raise InfraError('MODEL-ERROR: Readers model failed\n' + out[-2000:])
        comps = ['g++'] if tier == 'quick' else ['g++', 'clang++']
        runs = [(c, n) for c in comps for n in ((2, 4, 8) if tier == 'quick' else (2, 3, 4, 6, 8, 12))]
        rounds = 10 if tier == 'quick' else 60

        def one(job):
            comp, nth = job
            name = 'readers_%s_%d' % (comp.replace('+', 'p'), nth)
            binary = os.path.join(workdir(d, 'bin'), 'readers_' + comp.replace('+', 'p'))
            if not os.path.exists(binary):
                cmd = [comp, '-std=c++17', '-O1', '-g', '-fsanitize=thread', '-pthread', '-w', '-I' + os.path.join(vlib.REPO, 'include'),
                       os.path.join(vlib.HARNESS, 'readers_main.cpp'), '-o', binary + '.%d' % nth]
                rcb, outb, dtb = vlib.run(cmd, timeout=900)
                if rcb != 0:
                    raise InfraError('BUILD-ERROR readers harness\n' + outb[-2000:])
                os.replace(binary + '.%d' % nth, binary)
            trace = os.path.join(workdir(d, 'traces'), name + '.ndjson')
            viol = []
            lines = 0
            stats = dict(ops=0, execs=0)
            for rep in range(3 if tier == 'quick' else 10):
                rc2, out2, dt2 = vlib.run([binary, trace, str(nth), str(rounds)], timeout=600,
                                          env={'TSAN_OPTIONS': 'exitcode=66 halt_on_error=1 second_deadlock_stack=0'})
                if rc2 != 0:
                    what = 'data race reported by ThreadSanitizer' if rc2 == 66 or 'ThreadSanitizer' in out2 else 'reader harness failed (rc=%d)' % rc2
                    m = [x for x in out2.split('\n') if 'data race' in x or '#0' in x or '#1' in x][:4]
                    viol.append(dict(p='C20', l=1, why='%s with %d reader threads: %s' % (what, nth, ' | '.join(x.strip() for x in m)[:400])))
                    break
                vd = workdir(d, 'val_' + name)
                vlib.copy_specs(vd)
                v = vlib.validate(vd, 'TraceReaders', 'TraceReaders.cfg', trace, heap='3g')
                lines += v['lines']
                stats['ops'] += v['stats'].get('ops', 0)
                stats['execs'] += 1
                viol += v['viol']
                if v['viol']:
                    break
            stats['constOps'] = stats['ops']
            return dict(config=name, tag='readers', trace=trace, lines=lines, viol=viol, is_ref=False, kind='readers', wall=0, run_wall=0, script='',
                        stats=stats, mc=dict(states=counts[1], transitions=counts[0], model=dict(module='Readers', Shared=[3, 1, 2], NReaders=3, WriterSteps=2),
                                             params=dict(threads=nth, rounds=rounds), ops={}, sample_walk=[dict(op='reader walk / find / compare / copy', threads=nth)]))
        return dict(results=pmap(one, runs, workers=3))
    return cached_suite('readers', tier, seed, compute)


def suite_words(tier, seed):
    """Design model of the two-word encoding (SmallVecWords.tla): refinement check for the repaired design, and the
    counterexamples TLC must find when the pinned tree's defects are switched back on (anti-vacuity)."""
    def compute(d):
        md = workdir(d, 'mc_words')
        vlib.copy_specs(md)
        ns = [1, 2, 3] if tier == 'quick' else [1, 2, 3, 4, 5]
        kmax = 15 if tier == 'quick' else 31
        runs = [(n, dev) for n in ns for dev in ('{}', '{"F01"}', '{"F07"}')]

        def one(job):
            n, dev = job
            cfg = 'SVW_%d_%s.cfg' % (n, dev.strip('{}"') or 'none')
            with open(os.path.join(md, cfg), 'w') as f:
                f.write('SPECIFICATION Spec\nCONSTANTS\n N = %d\n KMax = %d\n Dev = %s\nINVARIANT Inv\nCONSTRAINT Bound\nCHECK_DEADLOCK FALSE\n' % (n, kmax, dev))
            rc, out, dt = vlib.tlc(md, 'SmallVecWords', cfg, workers=2, timeout=1200, heap='4g')
            counts = vlib.parse_counts(out) or (0, 0)
            return dict(n=n, dev=dev, ok='No error has been found' in out, violated='Invariant Inv is violated' in out, generated=counts[0], states=counts[1])
        rs = pmap(one, runs, workers=4)
        bad = [r for r in rs if (r['dev'] == '{}' and not r['ok']) or (r['dev'] != '{}' and not r['violated'])]
        if bad:
            raise InfraError('MODEL-ERROR: SmallVecWords: %s' % json.dumps(bad))
        # the slot-level model of the shifting helpers (Slots.tla): theorem for the repaired design, refuted for known-bad variants
        msz, mcnt = (4, 3) if tier == 'quick' else (6, 4)

        def slots(dev):
            cfg = 'Slots_%s.cfg' % (dev.strip('{}"') or 'none')
            with open(os.path.join(md, cfg), 'w') as f:
                f.write('SPECIFICATION Spec\nCONSTANTS\n MaxSz = %d\n MaxCount = %d\n Dev = %s\nINVARIANT TheoremInv\nINVARIANT MoveInv\nCHECK_DEADLOCK FALSE\n' % (msz, mcnt, dev))
            rc, out, dt = vlib.tlc(md, 'Slots', cfg, workers=2, timeout=2400, heap='4g')
            which = 'MoveInv' if dev in ('{"F27"}', '{"F28"}') else 'TheoremInv'
            return dict(dev=dev, ok='No error has been found' in out, refuted=('%s is equal to FALSE' % which) in out)
        ss = pmap(slots, ['{}', '{"F09"}', '{"shiftLeftTrait"}', '{"F27"}', '{"F28"}'], workers=5)
        sbad = [r for r in ss if (r['dev'] == '{}' and not r['ok']) or (r['dev'] != '{}' and not r['refuted'])]
        if sbad:
            raise InfraError('MODEL-ERROR: Slots: %s' % json.dumps(sbad))
        ninst = 0
        for tr in (0, 1):
            for sz in range(msz + 1):
                ninst += sum((cnt + 1) for pos in range(sz + 1) for cnt in range(mcnt + 1)) + 2 * (sz + 1) + sum(sz - f for f in range(sz + 1))
            ninst += sum(cnt + 1 for sz in range(msz + 1) for cnt in range(sz + 1, sz + mcnt + 1)) if tr == 0 else 0
        good = [r for r in rs if r['dev'] == '{}']
        res = dict(config='design_words', tag='design', trace='', lines=0, viol=[], is_ref=False, kind='design', wall=0, run_wall=0, script='',
                   stats=dict(ops=0, execs=0, drift=0, skipped=0),
                   mc=dict(states=sum(r['states'] for r in good), transitions=sum(r['generated'] for r in good),
                           model=dict(module='SmallVecWords', N=ns, KMax=kmax), params=dict(Dev='{}'), ops={},
                           sample_walk=[dict(note='refinement DecodeOK /\\ Contract holds on every reachable state; with Dev={"F01"} and Dev={"F07"} TLC finds the counterexample',
                                             counterexamples_found=[(r['n'], r['dev']) for r in rs if r['dev'] != '{}' and r['violated']]),
                                        dict(note='SlotsTheorem (shifting helpers, both trait variants, every size / position / count / throw index) holds; '
                                                  'refuted by TLC for Dev={"F09"} and Dev={"shiftLeftTrait"}; MoveTheorem (element moves that throw: nothing '
                                                  'misapplied, nothing leaked, for every index of the throwing move) holds; refuted for Dev={"F27"} and Dev={"F28"}',
                                             instances=ninst, MaxSz=msz, MaxCount=mcnt)]))
        res['mc']['transitions'] += ninst
        return dict(results=[res])
    return cached_suite('words', tier, seed, compute)


SUITE_FN = {}
PROP_SUITES = {
    'C01': ['vec'], 'C02': ['vec', 'swap2', 'fault', 'sets', 'setfault', 'words'], 'C03': ['sets'], 'C04': ['sets'], 'C05': ['vec', 'sets', 'words'],
    'C06': ['vec', 'swap2', 'fault', 'sets', 'setfault'], 'C07': ['vec', 'swap2', 'words'], 'C08': ['limit', 'swap2'], 'C09': ['fault', 'setfault', 'words'],
    'C10': ['vec'], 'C11': ['sets'], 'C12': ['sets', 'bigsets'], 'C13': ['swap2'], 'C14': ['vec', 'swap2', 'sets', 'static'], 'C18': ['vec', 'growth', 'swap2'],
    'C19': ['sets', 'bigsets'], 'C20': ['vec', 'sets', 'readers'], 'C15': ['memalgo'], 'C17': ['static'], 'C16': ['matrix'],
}


# the quick tier of the properties that span many suites leaves the most expensive redundant ones to the thorough tier
# (every suite still runs in the quick tier under the properties it matters most for)
PROP_SUITES_QUICK = dict(PROP_SUITES, C02=['vec', 'fault', 'sets'], C06=['vec', 'swap2', 'fault', 'sets'], C14=['vec', 'sets', 'static'])


def run_property(prop, tier, seed):
    SUITE_FN.update(vec=suite_vec, swap2=suite_swap2, fault=suite_fault, limit=suite_limit, growth=suite_growth, sets=suite_sets,
                    setfault=suite_setfault, bigsets=suite_bigsets, memalgo=suite_memalgo, static=suite_static, matrix=suite_matrix, readers=suite_readers, words=suite_words)
    if prop not in PROP_SUITES:
        raise InfraError('no check for property %s' % prop)
    results, wall, cached, extra = [], 0.0, True, {}
    for name in (PROP_SUITES_QUICK if tier == 'quick' else PROP_SUITES)[prop]:
        r = SUITE_FN[name](tier, seed)
        results += r['results']
        wall += r.get('wall', 0)
        cached = cached and r.get('cached', False)
        for k in ('hint', 'merge', 'growth_model'):
            if k in r:
                extra[k] = r[k]
    res = dict(results=results, wall=wall, cached=cached)
    viols, merr = collect(prop, results)
    ev = evidence_vec(prop, res)
    cov = ev['coverage']
    if 'growth_model' in extra and prop == 'C18':
        cov['states'] += extra['growth_model']['states']
        cov['transitions'] += extra['growth_model']['generated']
        cov['growth_model'] = extra['growth_model']
    if 'hint' in extra and prop in ('C12', 'C19'):
        cov['hint_theorem'] = extra['hint']
        cov['transitions'] += extra['hint']['instances']
    if 'merge' in extra and prop == 'C03':
        cov['merge_theorem'] = extra['merge']
        cov['transitions'] += extra['merge']['instances']
    if prop in ('C19', 'C12'):
        cov['max_lookup_cmps'] = max([r['stats'].get('maxLookupCmps', 0) for r in results] + [0])
        cov['max_correct_hint_cmps'] = max([r['stats'].get('maxHintCmps', 0) for r in results] + [0])
    if prop == 'C17':
        st = results[0]['static']
        ev['level'] = 'exploration'
        cov.update(evaluations=results[0]['stats']['ops'], distinct_nontrivial=st['rows'], exhaustive=True,
                   rule='TLC evaluates the static contract (Static.tla) for every (element size, alignment, category, N) of the matrix; '
                        'each row becomes static_asserts on real instantiations (is_trivially_relocatable, FixedCapacityVector triviality and '
                        'size_type, SmallVector size bound, noexcept of move / swap, container traits), decided by the compiler in every cell '
                        '(compiler x language standard); distinct_nontrivial = number of rows, evaluations = static_asserts x cells',
                   samples=st['sample_rows'], cells=st['cells'], asserts_per_cell=st['asserts_per_cell'])
    if prop == 'C20':
        ev['level'] = 'exploration'
        nconst = sum(r['stats'].get('constOps', 0) for r in results)
        cov.update(evaluations=nconst, distinct_nontrivial=len([r for r in results if r['stats'].get('constOps', 0) > 0]),
                   rule='every const call (element access, walks, lookups, comparisons, source of a copy) recorded in the vector / set suites, '
                        'plus every result obtained by the concurrent reader threads (2-8 threads, TSan build); non-trivial = the call was '
                        'executed on an existing container and its representation hash / sequential value was checked by TLC; '
                        'distinct_nontrivial counts, conservatively, the distinct implementation configurations (container type x element '
                        'category x allocator x explored state space) in which such calls were checked, not the calls themselves')
    if prop == 'C09':
        ev['level'] = 'fault_enumeration'
        nf = sum(r['stats'].get('faults', 0) for r in results)
        npr = sum(r.get('fault_info', {}).get('probes', 0) for r in results)
        cov.update(evaluations=sum(r['stats'].get('execs', 0) for r in results), distinct_nontrivial=nf, probes=npr,
                   rule='one probe per (reachable state, call) edge of the TLC models (vectors and sets) whose call can throw; each '
                        'probe is re-executed with the k-th throwing event (element construction / copy / copy assignment, '
                        'allocator call) failing for k = 1, 2, ... until the call completes; distinct_nontrivial counts the '
                        'executions in which a failure was actually injected and the outcome judged by TLC')
    return dict(violations=viols, model_errors=merr, evidence=ev,
                summary='suites=%s configs=%d ops=%d transitions=%d drift=%d' % (
                    '+'.join((PROP_SUITES_QUICK if tier == 'quick' else PROP_SUITES)[prop]), len(results), cov['ops_validated'], cov['transitions'], cov['design_drift']))


def all_vec_configs():
    out = {}
    for tier in ('thorough', 'quick'):
        for c in vec1_configs(tier) + vec2_configs(tier) + swap2_configs(tier) + fault_configs(tier) + limit_configs(tier) + growth_configs(tier):
            out.setdefault(c.name, c)
    for c in [ImplCfg('sim_s3_NTR_amcled', 'NTR', 'amcled', [('small', 3, 'u32')] * 2 + [('vector', 0, 'u32')]),
              ImplCfg('sim_s2_TR_withrealloc', 'TR', 'withrealloc', [('small', 2, 'u32')] * 2 + [('fixed', 6)]),
              ImplCfg('sim_ref_std_NTR', 'NTR', 'stdlike', [('std',)] * 3),
              ImplCfg('sim_v_NTR_stdlike', 'NTR', 'stdlike', [('vector', 0, 'u32')] * 3),
              ImplCfg('sim_f5_NTR', 'NTR', 'stdlike', [('fixed', 5)] * 2 + [('small', 4, 'u8')]),
              ImplCfg('sim_s4_TC_amc', 'TC', 'amc', [('small', 4, 'u32')] * 3)]:
        out.setdefault(c.name, c)
    return out


def all_set_configs():
    out = {}
    F, S, R = 'flat', 'small', 'std'
    for tier in ('thorough', 'quick'):
        one, two = set_configs(tier)
        for c in one + two:
            out.setdefault(c.name, c)
    extra = [SetCfg('sim_fl_NTR', 'NTR', 'stdlike', [(F, 'Cmp'), (F, 'Cmp'), (F, 'Cmp2')]),
             SetCfg('sim_sm_TR', 'TR', 'amcled', [(S, 'Cmp', 2), (S, 'Cmp', 2), (S, 'Cmp2', 4)]),
             SetCfg('sim_smflat_NTR', 'NTR', 'stdlike', [(S, 'CmpT', 3, 'flat'), (S, 'CmpT', 3, 'flat'), (F, 'CmpT')]),
             SetCfg('sim_ref_stdset', 'NTR', 'stdlike', [(R, 'Cmp'), (R, 'Cmp'), (R, 'Cmp2')]),
             SetCfg('sf_fl_NTR_amcled', 'NTR', 'amcled', [(F, 'Cmp')]), SetCfg('sf_fl_small2_TR', 'TR', 'stdlike', [(F, 'Cmp', 0, None, 'small2')]),
             SetCfg('sf_sm2_NTR_stdlike', 'NTR', 'stdlike', [(S, 'Cmp', 2)]), SetCfg('sf_sm2flat_NTR', 'NTR', 'amcled', [(S, 'Cmp', 2, 'flat')]),
             SetCfg('sf_p_fl_NTR', 'NTR', 'stdlike', [(F, 'Cmp')] * 2), SetCfg('sf_p_flx_NTR', 'NTR', 'amcled', [(F, 'Cmp'), (F, 'Cmp2')]),
             SetCfg('sf_p_sm2_NTR', 'NTR', 'stdlike', [(S, 'Cmp', 2)] * 2), SetCfg('sf_fl_TR_withrealloc', 'TR', 'withrealloc', [(F, 'CmpT')]),
             SetCfg('sf_sm3_TR_amcled', 'TR', 'amcled', [(S, 'CmpT', 3)]), SetCfg('sf_p_smx_NTR', 'NTR', 'amcled', [(S, 'Cmp', 2), (S, 'Cmp2', 3)]),
             SetCfg('big_fl_TC_amc', 'TC', 'amc', [(F, 'CmpT')]), SetCfg('big_fl_small2_NTR', 'NTR', 'stdlike', [(F, 'CmpT', 0, None, 'small2')]),
             SetCfg('big_fl_stdvec_TR', 'TR', 'stdlike', [(F, 'CmpT', 0, None, 'std')]), SetCfg('big_ref_stdset', 'TC', 'stdlike', [('std', 'CmpT')])]
    for c in extra:
        out.setdefault(c.name, c)
    return out


def replay(path):
    """Re-execute a replay file: rebuild the harness of its configuration from the current tree, replay the labels of
    the execution, validate with TLC, print the verdict.  Exit 1 if the violation shows again, 0 if not."""
    rp = json.load(open(path))
    prop, cfgname, labels = rp['property'], rp['config'], rp.get('labels') or []
    d = workdir(vlib.inputs_hash(), 'replay_run')
    print('replay property=%s config=%s recorded line=%s why=%s labels=%d' % (prop, cfgname, rp.get('line'), rp.get('why'), len(labels)))
    vcfg = all_vec_configs().get(cfgname)
    scfg = all_set_configs().get(cfgname)
    if not labels or (vcfg is None and scfg is None):
        print('this replay file belongs to a suite without a per-execution replay (%s): re-run ./check %s to reproduce' % (rp.get('suite_kind'), prop))
        return 2
    script = os.path.join(d, 'replay.script')
    with open(script, 'w') as f:
        for i, l in enumerate(labels):
            line = vecpipe.label_line(l) if vcfg else setpipe.slabel_line(l)
            # the last label of a fault probe carries its fault index already (k)
            f.write(line + '\n')
        f.write('reset\n')
    r = run_cfg_script(d, vcfg, script, 'replay', batch=1) if vcfg else run_set_script(d, scfg, script, 'replay', batch=1)
    mine = [v for v in r['viol'] if v['p'] == prop]
    for v in r['viol'][:10]:
        print('  %s line %d: %s' % (v['p'], v['l'], v['why']))
    if mine:
        print('VIOLATION property=%s replay=%s' % (prop, path))
        return 1
    print('the execution is accepted on the current tree')
    return 0
