#!/bin/sh
# usage: regen_some.sh <tier> <property>...   run the listed checks in sequence (same output format as regen_all.sh)
cd "$(dirname "$0")/.."
tier=$1; shift
mkdir -p .work
rc=0
for p in "$@"; do
  start=$(date +%s)
  ./check $p $tier > .work/regen_$p.log 2>&1; r=$?
  echo "$p rc=$r $(($(date +%s)-start))s $(tail -1 .work/regen_$p.log | cut -c1-160)"
  [ $r -ne 0 ] && rc=1
done
exit $rc
