"""Vector pipeline: Vec.tla model checked by TLC, its whole transition relation exported and covered by walks that are
replayed on the real containers (one harness binary per implementation configuration); `tlc -simulate` behaviours of
a larger model replayed the same way; every recording validated by TLC against TraceVec.tla."""
import json
import os
import random
import time

from vlib import (pair_walks, validate_split, InfraError, Raw, build, copy_specs, covering_walks, execution_slice, label_line, log, parse_counts,
                  parse_export, tlc_export, pmap, read_lines, run, shortest_paths, tlc, validate, workdir, write_mc, HARNESS)

BIG = 2000000000

SIZE_T = {'u8': ('uint8_t', 255), 'u16': ('uint16_t', 65535), 'u32': ('uint32_t', BIG), 'u64': ('uint64_t', BIG),
          'i8': ('signed char', 127), 'i32': ('int32_t', BIG)}
ELEMS = {'TC': 'vh::ETC', 'TC1': 'vh::ETC1', 'TR': 'vh::ETR', 'NTR': 'vh::ENTR', 'NTRM': 'vh::ENTRM', 'NTRA': 'vh::ENTRA'}
ALLOCS = {'amcled': 1, 'stdlike': 2, 'withrealloc': 3, 'amc': 4, 'std': 5}


def slot(flav, n=0, st='u32', alloc='A'):
    """(C++ type, model description) of one pool slot; alloc 'A' = the configuration's allocator, 'A2' = another type"""
    ctype, mx = SIZE_T[st]
    aid = 1 if alloc == 'A' else 2
    if flav == 'vector':
        t = 'amc::vector<E,%s<E>,%s>' % (alloc, ctype)
        return t, dict(flav='vector', n=0, maxsz=mx, aid=aid)
    if flav == 'small':
        t = 'amc::SmallVector<E,%d,%s<E>,%s>' % (n, alloc, ctype)
        return t, dict(flav='small', n=n, maxsz=mx, aid=aid)
    if flav == 'fixed':
        t = 'amc::FixedCapacityVector<E,%d>' % n
        return t, dict(flav='fixed', n=n, maxsz=255 if n <= 255 else 65535, aid=0)
    if flav == 'std':
        return 'std::vector<E,A<E>>', dict(flav='vector', n=0, maxsz=BIG, ref=True, aid=1)
    raise ValueError(flav)


class ImplCfg:
    def __init__(self, name, elem, alloc, slots, std='c++20', count_global=True, extra=None, ops_exclude=()):
        self.name = name
        self.elem = elem
        self.alloc = alloc
        self.slots = [slot(*s) for s in slots]
        self.std = std
        self.count_global = count_global
        self.extra = extra or []
        self.ops_exclude = set(ops_exclude)

    def defines(self):
        d = ['CFG_ELEM=' + ELEMS[self.elem], 'CFG_ALLOC=%d' % ALLOCS[self.alloc],
             'CFG_TYPES=' + ','.join(t for t, _ in self.slots), 'CFG_NAME="%s"' % self.name]
        if self.count_global:
            d.append('VH_COUNT_GLOBAL_ALLOCS')
        return d

    def model(self):
        """what the MC model needs to know: flavour, N, MaxSz and type identity per slot"""
        ms = [m for _, m in self.slots]
        types = [t for t, _ in self.slots]
        tid = [types.index(t) + 1 for t in types]
        return dict(K=len(ms), Flav=[m['flav'] for m in ms], NInl=[m['n'] for m in ms], MaxSz=[m['maxsz'] for m in ms],
                    TypeId=tid, AllocId=[m['aid'] for m in ms])

    def is_ref(self):
        return any(m.get('ref') for _, m in self.slots)


# ------------------------------------------------------------------------------------------------------------------
def mc_export_job(args):
    return mc_export(*args)


def mc_export(base, model, params, name):
    import hashlib
    from vlib import dir_lock
    with dir_lock(workdir(base, 'mc_' + hashlib.sha256(json.dumps([model, params], sort_keys=True).encode()).hexdigest()[:12])):
        return _mc_export_unlocked(base, model, params, name)


def _mc_export_unlocked(base, model, params, name):
    """Model check MCVec for `model` with `params`, exporting the transition relation.  Cached in `base`."""
    key = json.dumps([model, params], sort_keys=True)
    import hashlib
    d = workdir(base, 'mc_' + hashlib.sha256(key.encode()).hexdigest()[:12])
    done = os.path.join(d, 'done.json')
    if os.path.exists(done):
        return d, json.load(open(done))
    copy_specs(d)
    defs = dict(CK=model['K'], CFlav=model['Flav'], CNInl=model['NInl'], CMaxSz=model['MaxSz'], CTypeId=model['TypeId'], CAllocId=model['AllocId'],
                CVals=set(params['Vals']), CIts=set(params['Its']), CRLens=set(params['RLens']),
                COps=Raw(params['Ops']))
    cfg = ['SPECIFICATION Spec', 'CONSTANTS', ' K <- CK', ' Flav <- CFlav', ' NInl <- CNInl', ' MaxSz <- CMaxSz',
           ' TypeId <- CTypeId', ' AllocId <- CAllocId', ' Vals <- CVals', ' MaxLen = %d' % params['MaxLen'], ' MaxCnt = %d' % params['MaxCnt'],
           ' Its <- CIts', ' RLens <- CRLens', ' Ops <- COps', ' Alias = %s' % ('TRUE' if params.get('Alias', True) else 'FALSE'), ' Near = %d' % params.get('Near', 0), 'VIEW View', 'INVARIANT Inv', 'PROPERTY StepProps',
           'ACTION_CONSTRAINT Export']
    write_mc(d, 'MC_gen', 'MCVec', defs, cfg)
    outp = os.path.join(d, 'export.txt')
    rc, edges, tail, dt = tlc_export(d, 'MC_gen', 'MC_gen.cfg', outp, workers=6, timeout=3000, heap='6g')
    counts = parse_counts(tail)
    if rc != 0 or counts is None or 'No error has been found' not in tail:
        raise InfraError('MODEL-ERROR: model checking of %s failed (rc=%d)\n%s' % (name, rc, tail[-3000:]))
    init = json.dumps([{'ex': False, 'vals': [], 'cap': 0, 'inl': False, 'pri': False}] * model['K'], sort_keys=True)
    key_fn = lambda s: json.dumps(s, sort_keys=True)
    walks = covering_walks(edges, init, max_len=params.get('WalkLen', 300), key=key_fn)
    ops = {}
    for e in edges:
        ops[e['l']['op']] = ops.get(e['l']['op'], 0) + 1
    script = os.path.join(d, 'walks.script')
    nsteps = 0
    with open(script, 'w') as f:
        for w in walks:
            for ei in w:
                f.write(label_line(edges[ei]['l']) + '\n')
                nsteps += 1
            f.write('reset\n')
    npairs = 0
    if params.get('Pairs'):
        first_ops, second_ops = params['Pairs']
        pw = pair_walks(edges, init, lambda l: l['op'] in first_ops, lambda l: second_ops is None or l['op'] in second_ops, key=key_fn)
        with open(script, 'a') as f:
            for w in pw:
                for ei in w:
                    f.write(label_line(edges[ei]['l']) + '\n')
                    nsteps += 1
                f.write('reset\n')
        npairs = len(pw)
    import pickle
    with open(os.path.join(d, 'edges.pickle'), 'wb') as f:
        pickle.dump([(key_fn(e['f']), e['l'], key_fn(e['t'])) for e in edges], f)
    info = dict(states=counts[1], transitions=len(edges), generated=counts[0], walks=len(walks), steps=nsteps, pairs=npairs,
                ops=ops, wall=dt, params=params, model=model,
                sample_walk=[edges[i]['l'] for i in walks[0][:12]] if walks else [])
    os.remove(outp)
    json.dump(info, open(done, 'w'))
    return d, info


def sim_behaviours(base, model, params, num, depth, seed, name):
    import hashlib
    from vlib import dir_lock
    key = json.dumps([model, params, num, depth, seed], sort_keys=True)
    with dir_lock(workdir(base, 'sim_' + hashlib.sha256(key.encode()).hexdigest()[:12])):
        return _sim_behaviours_unlocked(base, model, params, num, depth, seed, name)


def _sim_behaviours_unlocked(base, model, params, num, depth, seed, name):
    """`tlc -simulate` behaviours of a larger model, printed by the same Export constraint."""
    key = json.dumps([model, params, num, depth, seed], sort_keys=True)
    import hashlib
    d = workdir(base, 'sim_' + hashlib.sha256(key.encode()).hexdigest()[:12])
    done = os.path.join(d, 'done.json')
    if os.path.exists(done):
        return d, json.load(open(done))
    copy_specs(d)
    defs = dict(CK=model['K'], CFlav=model['Flav'], CNInl=model['NInl'], CMaxSz=model['MaxSz'], CTypeId=model['TypeId'], CAllocId=model['AllocId'],
                CVals=set(params['Vals']), CIts=set(params['Its']), CRLens=set(params['RLens']),
                COps=Raw(params['Ops']))
    cfg = ['SPECIFICATION SpecRandom', 'CONSTANTS', ' K <- CK', ' Flav <- CFlav', ' NInl <- CNInl', ' MaxSz <- CMaxSz',
           ' TypeId <- CTypeId', ' AllocId <- CAllocId', ' Vals <- CVals', ' MaxLen = %d' % params['MaxLen'], ' MaxCnt = %d' % params['MaxCnt'],
           ' Its <- CIts', ' RLens <- CRLens', ' Ops <- COps', ' Alias = %s' % ('TRUE' if params.get('Alias', True) else 'FALSE'), ' Near = %d' % params.get('Near', 0), 'INVARIANT Inv', 'ACTION_CONSTRAINT ExportSim']
    write_mc(d, 'MC_sim', 'MCVec', defs, cfg)
    outp = os.path.join(d, 'export.txt')
    rc, edges, tail, dt = tlc_export(d, 'MC_sim', 'MC_sim.cfg', outp, workers=1, timeout=3000, heap='4g',
                                     extra=['-simulate', 'num=%d' % num, '-depth', str(depth), '-seed', str(seed)])
    if 'Error' in tail and 'Invariant' in tail:
        raise InfraError('MODEL-ERROR: simulation of %s violated an invariant\n%s' % (name, tail[-2000:]))
    script = os.path.join(d, 'sim.script')
    init = [{'ex': False, 'vals': [], 'cap': 0, 'inl': False, 'pri': False}] * model['K']
    nb = 0
    with open(script, 'w') as f:
        first = True
        for e in edges:
            if e['f'] == init and not first:
                f.write('reset\n')
                nb += 1
            first = False
            f.write(label_line(e['l']) + '\n')
        f.write('reset\n')
        nb += 1
    info = dict(behaviours=nb, steps=len(edges), wall=dt, params=params, model=model, num=num, depth=depth, seed=seed)
    os.remove(outp)
    json.dump(info, open(done, 'w'))
    return d, info


# ------------------------------------------------------------------------------------------------------------------
def build_harness(base, cfg, sanitize=False):
    d = workdir(base, 'bin')
    out = os.path.join(d, cfg.name + ('_asan' if sanitize else ''))
    if os.path.exists(out):
        return out
    extra = list(cfg.extra)
    defines = cfg.defines()
    comp = 'g++'
    if sanitize:
        comp = 'clang++'
        extra += ['-fsanitize=address,undefined', '-fno-sanitize-recover=all', '-fno-omit-frame-pointer']
        defines = [x for x in defines if x != 'VH_COUNT_GLOBAL_ALLOCS']
    build(os.path.join(HARNESS, 'vec_main.cpp'), out + '.tmp', defines, std=cfg.std, extra=extra, compiler=comp)
    os.rename(out + '.tmp', out)
    return out


def record(binary, script, trace, batch=200, timeout=3000, env=None):
    rc, out, dt = run([binary, script, trace, str(batch)], timeout=timeout, env=env)
    if rc != 0:
        raise InfraError('HARNESS-ERROR rc=%d %s\n%s' % (rc, binary, out[-2000:]))
    return dt, out


def validate_vec(base, trace, tag):
    d = workdir(base, 'val_' + tag)
    copy_specs(d)
    return validate_split(d, 'TraceVec', 'TraceVec.cfg', trace)


# ------------------------------------------------------------------------------------------------------------------
NO_FAULT_OPS = {'at', 'index', 'front', 'back', 'iterate', 'relocate', 'destroy', 'eq', 'ne', 'lt', 'le', 'gt', 'ge'}


def fault_script(model_dir, max_probes=None, seed=1, label_fn=None, epilogue=None, no_fault_ops=None):
    # (two configurations with the same model share the model directory)
    from vlib import dir_lock
    with dir_lock(model_dir):
        return _fault_script_unlocked(model_dir, max_probes, seed, label_fn, epilogue, no_fault_ops)


def _fault_script_unlocked(model_dir, max_probes=None, seed=1, label_fn=None, epilogue=None, no_fault_ops=None):
    """(state, call) of every exported edge whose call may throw: shortest path to the state, then the probed call
    (the harness repeats the execution with the k-th throwing event failing, k = 1, 2, ...), then a fixed epilogue."""
    import pickle
    path = os.path.join(model_dir, 'faults.script')
    info_path = os.path.join(model_dir, 'faults.json')
    if os.path.exists(info_path):
        return path, json.load(open(info_path))
    edges = pickle.load(open(os.path.join(model_dir, 'edges.pickle'), 'rb'))
    init = None
    out = {}
    for i, (f, l, t) in enumerate(edges):
        out.setdefault(f, []).append(i)
    # the initial state is the one no container exists in
    for f in out:
        if '"ex": true' not in f:
            init = f
            break
    from collections import deque
    prev = {init: None}
    dq = deque([init])
    while dq:
        u = dq.popleft()
        for ei in out.get(u, ()):
            v = edges[ei][2]
            if v not in prev:
                prev[v] = (u, ei)
                dq.append(v)

    def path_to(s):
        p = []
        while prev[s] is not None:
            s, ei = prev[s]
            p.append(ei)
        p.reverse()
        return p
    label_fn = label_fn or label_line
    no_fault_ops = no_fault_ops or NO_FAULT_OPS
    if epilogue is None:
        epilogue = lambda c: ['?pushBackRv %d 0 0 0 1 0 - 0 0' % c, '?insert1rv %d 0 0 0 2 0 - 0 0' % c,
                              '?clear %d 0 0 0 0 0 - 0 0' % c]
    probes = [i for i, (f, l, t) in enumerate(edges) if l['op'] not in no_fault_ops]
    if max_probes and len(probes) > max_probes:
        rnd = random.Random(seed)
        probes = sorted(rnd.sample(probes, max_probes))
    with open(path, 'w') as fo:
        for i in probes:
            f, l, t = edges[i]
            for ei in path_to(f):
                fo.write(label_fn(edges[ei][1]) + '\n')
            fo.write('!' + label_fn(l) + '\n')
            for ln in epilogue(l['c']):
                fo.write(ln + '\n')
            fo.write('reset\n')
    info = dict(probes=len(probes), edges=len(edges))
    json.dump(info, open(info_path, 'w'))
    return path, info
