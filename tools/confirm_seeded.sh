#!/bin/sh
# usage: confirm_seeded.sh <id> <patched worktree (HEAD + patch)> <demo.cpp> <outdir>
# Confirms: the change compiles and passes the repository's own tests; the demo passes on /repo and fails on the change.
id=$1; wt=$2; demo=$3; out=$4
mkdir -p "$out"
( cd "$wt" && cmake -G Ninja -S . -B _b -DCMAKE_BUILD_TYPE=RelWithDebInfo -DCMAKE_CXX_FLAGS=-Wno-error -DGTest_DIR=/root/miniconda/lib/cmake/GTest >/dev/null 2>&1 \
  && cmake --build _b -j4 >_b.build.log 2>&1 && ctest --test-dir _b -j8 --timeout 900 2>&1 | tail -4 ) > "$out/suite.log" 2>&1
suite=$(grep -c "100% tests passed" "$out/suite.log")
g++ ${CONFIRM_FLAGS:--std=c++17} -DAMC_NONSTD_FEATURES -I/repo/include "$demo" -o "$out/demo_orig" 2>"$out/demo_orig.build.log" && ( "$out/demo_orig" >"$out/demo_orig.log" 2>&1; echo $? > "$out/demo_orig.rc" )
g++ ${CONFIRM_FLAGS:--std=c++17} -DAMC_NONSTD_FEATURES -I"$wt/include" "$demo" -o "$out/demo_mut" 2>"$out/demo_mut.build.log" && ( "$out/demo_mut" >"$out/demo_mut.log" 2>&1; echo $? > "$out/demo_mut.rc" )
echo "{\"id\":\"$id\",\"suite_passes_with_change\":$suite,\"demo_rc_original\":$(cat $out/demo_orig.rc 2>/dev/null || echo -1),\"demo_rc_with_change\":$(cat $out/demo_mut.rc 2>/dev/null || echo -1)}" > "$out/confirm.json"
rm -rf "$wt/_b" "$out/demo_orig" "$out/demo_mut"
cat "$out/confirm.json"
