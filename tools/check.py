#!/usr/bin/env python3
"""./check <property> <quick|thorough>     run the check of one property, write evidence/<property>.json
   ./check replay <path>                    re-execute a replay file
Exit 0: property held on everything explored (KNOWN-FINDING lines possible); 1: VIOLATION line(s) printed;
2: infrastructure / model error (never used to hide a rejection)."""
import json
import os
import sys
import time

sys.path.insert(0, os.path.dirname(os.path.abspath(__file__)))
import vlib
from vlib import InfraError, log, VERIF, WORK

import suites


def load_known():
    known = []
    p = os.path.join(VERIF, 'KNOWN_FINDINGS.txt')
    if os.path.exists(p):
        for line in open(p):
            line = line.strip()
            if line.startswith('known:'):
                parts = line.split()
                props = [x for x in parts if x.startswith('property=')][0][9:].split(',')
                match = [x for x in parts if x.startswith('match=')]
                kv = dict(x.split('=', 1) for x in match[0][6:].split(',')) if match else {}
                known.append(dict(props=props, match=kv, text=line[6:].strip()))
    return known


def is_known(known, prop, v):
    for k in known:
        if prop not in k['props']:
            continue
        ok = True
        for key, val in k['match'].items():
            if key == 'op' and v.get('label', {}).get('op') != val:
                ok = False
            elif key == 'config' and val not in v.get('config', ''):
                ok = False
            elif key == 'why' and val.replace('_', ' ') not in v.get('why', ''):
                ok = False
        if ok:
            return k
    return None


def prune_cache(hours=8):
    """the cache is keyed by a hash of every input: directories of trees that have not been used for a while are dropped"""
    import re
    import shutil
    try:
        now = time.time()
        for name in os.listdir(WORK):
            p = os.path.join(WORK, name)
            if re.fullmatch(r'[0-9a-f]{20}', name) and os.path.isdir(p) and now - os.path.getmtime(p) > hours * 3600:
                newest = max((os.path.getmtime(os.path.join(p, x)) for x in os.listdir(p)), default=0)
                if now - newest > hours * 3600:
                    shutil.rmtree(p, ignore_errors=True)
    except OSError:
        pass


def main():
    prune_cache()
    if len(sys.argv) >= 3 and sys.argv[1] == 'replay':
        return suites.replay(sys.argv[2])
    if len(sys.argv) < 2:
        print(__doc__)
        return 2
    prop = sys.argv[1]
    tier = sys.argv[2] if len(sys.argv) > 2 else os.environ.get('VERIF_TIER', 'quick')
    seed = int(os.environ.get('VERIF_SEED', '1'))
    t0 = time.time()
    try:
        res = suites.run_property(prop, tier, seed)
    except InfraError as e:
        print('INFRA-ERROR property=%s %s' % (prop, str(e)[:4000]))
        return 2
    known = load_known()
    nviol = 0
    printed_known = set()
    for v in res['violations']:
        k = is_known(known, prop, v)
        if k:
            if k['text'] not in printed_known:
                print('KNOWN-FINDING: property=%s %s' % (prop, k['text']))
                printed_known.add(k['text'])
            continue
        nviol += 1
        if nviol <= 10:
            print('VIOLATION property=%s replay=%s' % (prop, v['replay']))
            print('  config=%s line=%s why=%s label=%s' % (v.get('config'), v.get('line'), v.get('why'),
                                                          json.dumps(v.get('label'))))
    if res.get('model_errors'):
        for m in res['model_errors'][:5]:
            print('MODEL-ERROR property=%s %s' % (prop, m))
    ev = res['evidence']
    ev.update(property_id=prop, tier=tier, seed=seed, wall_s=round(time.time() - t0, 2), violations=nviol)
    os.makedirs(os.path.join(VERIF, 'evidence'), exist_ok=True)
    with open(os.path.join(VERIF, 'evidence', prop + '.json'), 'w') as f:
        json.dump(ev, f, indent=1, sort_keys=True)
    for line in res.get('notes', []):
        print(line)
    if nviol:
        return 1
    if res.get('model_errors'):
        return 2
    print('OK property=%s tier=%s %s' % (prop, tier, res.get('summary', '')))
    return 0


if __name__ == '__main__':
    sys.exit(main())
