#!/usr/bin/env python3
"""C17 generator: rows printed by TLC (Static.tla) -> a translation unit of static_asserts on real instantiations."""
import json, sys
CAT = {'trivial': 0, 'optout': 1, 'tr': 2, 'ntr': 3, 'throwmove': 4, 'throwasg': 5, 'ntrtd': 6}

def b(x):
    return 'true' if x else 'false'

def emit(rows, out):
    emit_offset(rows, out, 0)


def emit_offset(rows, out, off):
    w = out.write
    w('#include "static_prelude.hpp"\n#define SA(row, what, ...) static_assert(__VA_ARGS__, "VERIF_STATIC C17 row=" #row " " what)\n')
    for i0, r in enumerate(rows):
        i = i0 + off
        T = 'vs::S<%d,%d,%d>' % (r['size'], r['align'], CAT[r['cat']])
        N = r['n']
        w('// row %d: %s\n' % (i, json.dumps(r, sort_keys=True)))
        if N == 0 or i % 7 == 0:
            w('SA(%d, "is_trivially_relocatable<T>", amc::is_trivially_relocatable<%s>::value == %s);\n' % (i, T, b(r['tr'])))
            w('SA(%d, "pair<T,tr>", amc::is_trivially_relocatable<std::pair<%s, vs::S<4,4,2> > >::value == %s);\n' % (i, T, b(r['pairWithTR'])))
            w('SA(%d, "pair<tr,T>", amc::is_trivially_relocatable<std::pair<vs::S<4,4,2>, %s> >::value == %s);\n' % (i, T, b(r['pairWithTR'])))
            w('SA(%d, "pair<trivial,T>", amc::is_trivially_relocatable<std::pair<int, %s> >::value == %s);\n' % (i, T, b(r['pairWithTR'])))
            w('SA(%d, "vector of pair<tr,T> element trait", amc::is_trivially_relocatable<amc::SmallVector<std::pair<vs::S<4,4,2>, %s>, 3> >::value == %s);\n' % (i, T, b(r['pairWithTR'])))
            w('SA(%d, "pair<T,ntr>", amc::is_trivially_relocatable<std::pair<vs::S<4,4,3>, %s> >::value == %s);\n' % (i, T, b(r['pairWithNTR'])))
            w('SA(%d, "vector<T> relocatable", amc::is_trivially_relocatable<amc::vector<%s> >::value == %s);\n' % (i, T, b(r['vecTR'])))
            w('SA(%d, "vector<T> noexcept move", std::is_nothrow_move_constructible<amc::vector<%s> >::value && std::is_nothrow_move_assignable<amc::vector<%s> >::value);\n' % (i, T, T))
        if N == 0:
            F0 = 'amc::FixedCapacityVector<%s,0ULL>' % T
            w('SA(%d, "FixedCapacityVector<T,0> trivially destructible", std::is_trivially_destructible<%s >::value == %s);\n' % (i, F0, b(r['fcvTrivDtor'])))
            w('SA(%d, "FixedCapacityVector<T,0> size_type", sizeof(%s::size_type) == %d && std::is_unsigned<%s::size_type>::value);\n' % (i, F0, r['fcvSizeTypeBytes'], F0))
            w('SA(%d, "FixedCapacityVector<T,0> relocatable", amc::is_trivially_relocatable<%s >::value == %s);\n' % (i, F0, b(r['fcvTR'])))
        if N >= 1:
            F = 'amc::FixedCapacityVector<%s,%dULL>' % (T, N)
            w('SA(%d, "FixedCapacityVector trivially destructible", std::is_trivially_destructible<%s >::value == %s);\n' % (i, F, b(r['fcvTrivDtor'])))
            w('SA(%d, "FixedCapacityVector size_type", sizeof(%s::size_type) == %d && std::is_unsigned<%s::size_type>::value);\n' % (i, F, r['fcvSizeTypeBytes'], F))
            w('SA(%d, "FixedCapacityVector relocatable", amc::is_trivially_relocatable<%s >::value == %s);\n' % (i, F, b(r['fcvTR'])))
            if N <= 4096:
                w('SA(%d, "FixedCapacityVector noexcept move ctor", std::is_nothrow_move_constructible<%s >::value == %s);\n' % (i, F, b(r['nxMoveCtor'])))
                w('SA(%d, "FixedCapacityVector noexcept move assignment", std::is_nothrow_move_assignable<%s >::value == %s);\n' % (i, F, b(r['nxMoveAsg'])))
                w('SA(%d, "FixedCapacityVector noexcept swap", noexcept(std::declval<%s &>().swap(std::declval<%s &>())) == %s);\n' % (i, F, F, b(r['nxSwap'])))
            if N <= 65535 - 1:
                V = 'amc::SmallVector<%s,%dULL>' % (T, N)
                w('SA(%d, "SmallVector size", sizeof(%s) <= sizeof(amc::vector<%s >) + %s);\n' % (i, V, T, '0' if r['svFitsPtr'] else str(r['svExtra'])))
                w('SA(%d, "SmallVector relocatable", amc::is_trivially_relocatable<%s >::value == %s);\n' % (i, V, b(r['svTR'])))
                w('SA(%d, "SmallVector noexcept move ctor", std::is_nothrow_move_constructible<%s >::value == %s);\n' % (i, V, b(r['nxMoveCtor'])))
                w('SA(%d, "SmallVector noexcept move assignment", std::is_nothrow_move_assignable<%s >::value == %s);\n' % (i, V, b(r['nxMoveAsg'])))
                w('SA(%d, "SmallVector noexcept swap", noexcept(std::declval<%s &>().swap(std::declval<%s &>())) == %s);\n' % (i, V, V, b(r['nxSwap'])))
    # set containers: the trait is the conjunction of the parts'
    w('// containers of containers\n')
    for cat, tr in (('2', True), ('3', False), ('0', True)):
        T = 'vs::S<8,8,%s>' % cat
        for cmp_, ctr in (('vs::CmpTR', True), ('vs::CmpNTR', False)):
            w('SA(9000, "FlatSet relocatable = comparator && vector", amc::is_trivially_relocatable<amc::FlatSet<%s,%s> >::value == %s);\n' % (T, cmp_, b(ctr)))
            w('SA(9001, "FlatSet over SmallVector relocatable = comparator && vector", amc::is_trivially_relocatable<amc::FlatSet<%s,%s,amc::allocator<%s >,amc::SmallVector<%s,3> > >::value == %s);\n' % (T, cmp_, T, T, b(ctr and tr)))
            w('#if __cplusplus >= 201703L\n')
            w('SA(9002, "SmallSet over std::set never relocatable", amc::is_trivially_relocatable<amc::SmallSet<%s,4,%s> >::value == false);\n' % (T, cmp_))
            w('SA(9003, "SmallSet over FlatSet relocatable = parts", amc::is_trivially_relocatable<amc::SmallSet<%s,4,%s,amc::allocator<%s >,amc::FlatSet<%s,%s> > >::value == %s);\n' % (T, cmp_, T, T, cmp_, b(ctr and tr)))
            w('#endif\n')
    w('int main() { return 0; }\n')

if __name__ == '__main__':
    rows = [json.loads(l) for l in open(sys.argv[1])]
    with open(sys.argv[2], 'w') as f:
        emit(rows, f)
