"""Common machinery of the checks: content-addressed work cache, TLC runs (model check + export, trace validation),
harness builds, covering walks over an exported transition relation, evidence / replay files.

Nothing here knows what a property means: expected behaviour lives in /verif/spec/*.tla only, and TLC is the judge."""
import hashlib
import json
import os
import re
import shutil
import subprocess
import sys
import time
from collections import defaultdict, deque
from concurrent.futures import ThreadPoolExecutor

VERIF = os.path.dirname(os.path.dirname(os.path.abspath(__file__)))
REPO = os.environ.get('VERIF_REPO', '/repo')
WORK = os.path.join(VERIF, '.work')
SPEC = os.path.join(VERIF, 'spec')
HARNESS = os.path.join(VERIF, 'harness')
JAVA_CP = '/opt/veriftools/tla/tla2tools.jar:/opt/veriftools/tla/CommunityModules-deps.jar'
NCPU = os.cpu_count() or 4


import itertools
_META_COUNTER = itertools.count()
import threading
_TLC_SEM = threading.BoundedSemaphore(max(2, (os.cpu_count() or 4) - 2))


class InfraError(Exception):
    """Build / model / tool failure: exit code 2, never a VIOLATION."""


def log(*a):
    print(*a, file=sys.stderr, flush=True)


def sha_files(paths):
    h = hashlib.sha256()
    for p in sorted(paths):
        h.update(p.encode())
        with open(p, 'rb') as f:
            h.update(hashlib.sha256(f.read()).digest())
    return h.hexdigest()


def tree_files(root, exts=None):
    out = []
    for d, _, fs in os.walk(root):
        if '/.git' in d or '/_build' in d:
            continue
        for f in fs:
            if exts is None or os.path.splitext(f)[1] in exts:
                out.append(os.path.join(d, f))
    return out


def inputs_hash(extra=''):
    """Hash of everything a result depends on: the library headers of the CURRENT working tree, the specification,
    the harness and the tools."""
    files = tree_files(os.path.join(REPO, 'include')) + tree_files(SPEC, {'.tla', '.cfg'}) + \
        tree_files(HARNESS) + tree_files(os.path.join(VERIF, 'tools'), {'.py'})
    return hashlib.sha256((sha_files(files) + extra).encode()).hexdigest()[:20]


def workdir(*parts):
    d = os.path.join(WORK, *parts)
    os.makedirs(d, exist_ok=True)
    return d


def run(cmd, cwd=None, env=None, timeout=3600, stdout=None):
    e = dict(os.environ)
    if env:
        e.update(env)
    t0 = time.time()
    try:
        p = subprocess.run(cmd, cwd=cwd, env=e, timeout=timeout, stdout=stdout or subprocess.PIPE,
                           stderr=subprocess.STDOUT if stdout is None else subprocess.PIPE, text=True)
    except subprocess.TimeoutExpired:
        raise InfraError('timeout after %ds: %s' % (timeout, ' '.join(cmd)[:200]))
    return p.returncode, (p.stdout if stdout is None else p.stderr) or '', time.time() - t0


# ------------------------------------------------------------------------------------------------------------------
# TLC

def copy_specs(dst):
    for f in os.listdir(SPEC):
        if f.endswith('.tla') or f.endswith('.cfg'):
            shutil.copy(os.path.join(SPEC, f), os.path.join(dst, f))


def tlc(cwd, module, cfg, workers=4, env=None, timeout=3600, heap='6g', outfile=None, extra=None):
    meta = os.path.join(cwd, 'md_%s_%d_%d' % (module, os.getpid(), next(_META_COUNTER)))
    gc = ['-XX:+UseParallelGC'] if workers > 1 else ['-XX:+UseSerialGC', '-XX:TieredStopAtLevel=4', '-XX:CICompilerCount=2']
    cmd = ['java'] + gc + ['-Xss512m', '-Xmx' + heap, '-cp', JAVA_CP, 'tlc2.TLC', '-workers', str(workers),
           '-metadir', meta, '-config', cfg] + (extra or []) + [module + '.tla']
    with _TLC_SEM:
        if outfile:
            with open(outfile, 'w') as fo:
                rc, err, dt = run(cmd, cwd=cwd, env=env, timeout=timeout, stdout=fo)
            out = None
        else:
            rc, out, dt = run(cmd, cwd=cwd, env=env, timeout=timeout)
    shutil.rmtree(meta, ignore_errors=True)
    return rc, out, dt


TLC_COUNTS = re.compile(r'(\d+) states generated, (\d+) distinct states found')


def parse_counts(text):
    m = None
    for m in TLC_COUNTS.finditer(text):
        pass
    if not m:
        return None
    return int(m.group(1)), int(m.group(2))


def tla_value(v):
    """python value -> TLA+ expression"""
    if isinstance(v, bool):
        return 'TRUE' if v else 'FALSE'
    if isinstance(v, int):
        return str(v)
    if isinstance(v, str):
        return '"%s"' % v
    if isinstance(v, (list, tuple)):
        return '<<' + ', '.join(tla_value(x) for x in v) + '>>'
    if isinstance(v, (set, frozenset)):
        return '{' + ', '.join(tla_value(x) for x in sorted(v, key=lambda z: (str(type(z)), z))) + '}'
    if isinstance(v, range):
        return '%d..%d' % (v.start, v.stop - 1)
    if isinstance(v, Raw):
        return v.s
    raise TypeError(v)


class Raw:
    def __init__(self, s):
        self.s = s


def write_mc(dirpath, name, extends, defs, cfg_lines):
    """Generate a model-checking module `name` extending `extends`, with constant definitions `defs`
    (dict: operator -> python value) and the given .cfg body."""
    body = '---- MODULE %s ----\nEXTENDS %s\n' % (name, extends)
    for k, v in defs.items():
        body += '%s == %s\n' % (k, tla_value(v))
    body += '====\n'
    with open(os.path.join(dirpath, name + '.tla'), 'w') as f:
        f.write(body)
    with open(os.path.join(dirpath, name + '.cfg'), 'w') as f:
        f.write('\n'.join(cfg_lines) + '\n')


# ------------------------------------------------------------------------------------------------------------------
# exported transition relation -> covering walks

import contextlib
import fcntl
import threading

_DIR_LOCKS = {}
_DIR_LOCKS_GUARD = threading.Lock()


@contextlib.contextmanager
def dir_lock(d):
    """serialise the computation that fills cache directory d (threads of this process and other processes)"""
    with _DIR_LOCKS_GUARD:
        tl = _DIR_LOCKS.setdefault(d, threading.Lock())
    with tl:
        with open(os.path.join(d, '.lock'), 'w') as lf:
            fcntl.flock(lf, fcntl.LOCK_EX)
            try:
                yield
            finally:
                fcntl.flock(lf, fcntl.LOCK_UN)


class ExportCorrupt(Exception):
    pass


def parse_export(path):
    """Lines  <<"T", "<json>">>  printed by the Export action constraint.  Returns (edges, counts-text)."""
    edges = []
    tail = []
    dec = json.JSONDecoder()
    with open(path) as f:
        for line in f:
            # (TLC prints its progress reports from another thread: one may land on the same line as a record)
            while line.startswith('<<"T", '):
                try:
                    inner, end = dec.raw_decode(line, 7)
                    edges.append(json.loads(inner))
                except ValueError:
                    raise ExportCorrupt(line[:300])
                line = line[end:]
                if line.startswith('>>'):
                    line = line[2:]
            if line.strip() and not line.startswith('<<'):
                tail.append(line)
    return edges, ''.join(tail)


def tlc_export(cwd, module, cfg, outp, attempts=3, **kw):
    """run TLC with its output in `outp` and parse the exported records; a record damaged by interleaved output (seen
    once under heavy load) makes the run be repeated rather than a transition be lost"""
    last = None
    for _ in range(attempts):
        rc, _, dt = tlc(cwd, module, cfg, outfile=outp, **kw)
        try:
            edges, tail = parse_export(outp)
            return rc, edges, tail, dt
        except ExportCorrupt as e:
            last = e
            log('damaged record in %s, repeating the TLC run: %s' % (outp, str(e)[:120]))
    raise InfraError('TLC output damaged %d times in a row: %s' % (attempts, str(last)[:300]))


def covering_walks(edges, init_key, max_len=300, key=lambda s: json.dumps(s, sort_keys=True), stop_edge=None):
    """Greedy covering of every edge of the exported graph by walks from the initial state.
    Returns list of walks, each a list of edge indices.  Every edge appears at least once."""
    sid = {}

    def ident(k):
        v = sid.get(k)
        if v is None:
            v = len(sid)
            sid[k] = v
        return v
    init = ident(init_key)
    fk = [0] * len(edges)
    tk = [0] * len(edges)
    for i, e in enumerate(edges):
        fk[i] = ident(key(e['f']))
        tk[i] = ident(key(e['t']))
    n = len(sid)
    unc_out = [[] for _ in range(n)]       # uncovered out-edges per state (stack)
    succ = [dict() for _ in range(n)]       # distinct successor state -> one representative edge
    for i in range(len(edges)):
        unc_out[fk[i]].append(i)
        succ[fk[i]].setdefault(tk[i], i)
    remaining = len(edges)
    walks = []

    def path_to_uncovered(s):
        prev = {s: None}
        dq = deque([s])
        while dq:
            u = dq.popleft()
            if u != s and unc_out[u]:
                path = []
                while prev[u] is not None:
                    pu, ei = prev[u]
                    path.append(ei)
                    u = pu
                path.reverse()
                return path
            for v, ei in succ[u].items():
                if v not in prev:
                    prev[v] = (u, ei)
                    dq.append(v)
        return None

    while remaining:
        walk = []
        s = init
        while len(walk) < max_len:
            if unc_out[s]:
                i = unc_out[s].pop()
                remaining -= 1
                walk.append(i)
                s = tk[i]
                continue
            p = path_to_uncovered(s)
            if p is None:
                break
            if len(walk) + len(p) >= max_len and walk:
                break
            walk.extend(p)
            s = tk[p[-1]]
        if not walk:
            raise InfraError('covering walks: %d edges unreachable from the initial state' % remaining)
        walks.append(walk)
    return walks


def pair_walks(edges, init_key, first_pred, second_pred, key=lambda s: json.dumps(s, sort_keys=True)):
    """2-edge coverage: for every edge e whose label satisfies first_pred and every edge f leaving e's target whose label
    satisfies second_pred, a walk  shortest-path-to-source(e), e, f.  (Edge coverage executes every transition from
    SOME path; a defect that silently corrupts hidden state in e and only shows in f needs e and f back to back.)"""
    out = defaultdict(list)
    fk, tk = [], []
    for i, e in enumerate(edges):
        a, b = key(e['f']), key(e['t'])
        fk.append(a)
        tk.append(b)
        out[a].append(i)
    prev = {init_key: None}
    dq = deque([init_key])
    while dq:
        u = dq.popleft()
        for ei in out.get(u, ()):
            v = tk[ei]
            if v not in prev:
                prev[v] = (u, ei)
                dq.append(v)

    def path_to(sk):
        p = []
        while prev[sk] is not None:
            sk, ei = prev[sk]
            p.append(ei)
        p.reverse()
        return p
    walks = []
    for i, e in enumerate(edges):
        if not first_pred(e['l']) or fk[i] not in prev:
            continue
        base = path_to(fk[i]) + [i]
        for j in out.get(tk[i], ()):
            if second_pred(edges[j]['l']):
                walks.append(base + [j])
    return walks


def shortest_paths(edges, init_key, key=lambda s: json.dumps(s, sort_keys=True)):
    """state key -> list of edge indices of a shortest path from the initial state"""
    out = defaultdict(list)
    tk = []
    for i, e in enumerate(edges):
        out[key(e['f'])].append(i)
        tk.append(key(e['t']))
    prev = {init_key: None}
    dq = deque([init_key])
    while dq:
        u = dq.popleft()
        for ei in out.get(u, ()):
            v = tk[ei]
            if v not in prev:
                prev[v] = (u, ei)
                dq.append(v)
    paths = {}
    for s in prev:
        p = []
        u = s
        while prev[u] is not None:
            pu, ei = prev[u]
            p.append(ei)
            u = pu
        p.reverse()
        paths[s] = p
    return paths


def label_line(l, k=0):
    """specification label (dict) -> one line of the harness script"""
    it = l.get('it') or '-'
    vs = l.get('vs') or []
    return '%s %d %d %d %d %d %d %s %d %d%s' % (l['op'], l['c'], l.get('d', 0), l.get('pos', 0), l.get('n', 0), l.get('v', 0),
                                                l.get('src', 0), it, k if k else l.get('k', 0), len(vs),
                                                ''.join(' %d' % x for x in vs))


# ------------------------------------------------------------------------------------------------------------------
# harness builds

def build(src, out, defines, std='c++20', opt='-O1', extra=None, compiler='g++', timeout=900):
    cmd = [compiler, '-std=' + std, opt, '-g0', '-w', '-DAMC_NONSTD_FEATURES', '-I' + os.path.join(REPO, 'include'),
           '-I' + HARNESS] + ['-D' + d for d in defines] + (extra or []) + [src, '-o', out]
    rc, outp, dt = run(cmd, timeout=timeout)
    if rc != 0:
        raise InfraError('BUILD-ERROR %s\n%s' % (' '.join(cmd), outp[-3000:]))
    return dt


# ------------------------------------------------------------------------------------------------------------------
# trace validation

REPORT_RE = re.compile(r'^<<"REPORT", (".*")>>$', re.M)
VERDICT_RE = re.compile(r'^<<"VERDICT", (".*")>>$', re.M)


def validate(cwd, module, cfg, trace, timeout=3600, heap='8g'):
    """Run TLC on a recorded trace.  Returns dict(viol=[...], stats={...}, consumed, lines, states, wall)."""
    rc, out, dt = tlc(cwd, module, cfg, workers=1, env={'TRACE': trace}, timeout=timeout, heap=heap)
    rep = None
    for m in REPORT_RE.finditer(out):
        rep = json.loads(json.loads(m.group(1)))
    ver = None
    for m in VERDICT_RE.finditer(out):
        ver = json.loads(json.loads(m.group(1)))
    if ver is None:
        raise InfraError('MODEL-ERROR: TLC gave no verdict on %s (rc=%d)\n%s' % (trace, rc, out[-3000:]))
    res = {'consumed': ver['consumed'], 'lines': ver['lines'], 'wall': dt, 'rc': rc,
           'viol': rep['viol'] if rep else [], 'stats': rep['stats'] if rep else {}}
    if ver['consumed'] != ver['lines']:
        # TLC stopped before the end of the trace: the line after the longest accepted prefix is not a behaviour
        res['rejected_at'] = ver['consumed'] + 1
        res['tlc_tail'] = out[-2500:]
    return res


def read_lines(path, wanted):
    """fetch specific 1-based lines of a (large) file"""
    wanted = set(wanted)
    got = {}
    if not wanted:
        return got
    mx = max(wanted)
    with open(path) as f:
        for i, line in enumerate(f, 1):
            if i in wanted:
                got[i] = line.rstrip('\n')
            if i >= mx:
                break
    return got


def execution_slice(path, line):
    """labels of the execution (since the previous reset / abort / config) that contains 1-based `line`"""
    labels = []
    with open(path) as f:
        for i, ln in enumerate(f, 1):
            if i > line:
                break
            if ln.startswith('{"e":"op"'):
                m = re.search(r'"lbl":(\{[^{}]*\})', ln)
                if m:
                    labels.append(json.loads(m.group(1)))
            elif i > 1:
                labels = []
    return labels


CRASH_LINE = ('{"e":"op","lbl":{"op":"unknown","c":0,"d":0,"pos":0,"n":0,"v":0,"src":0,"it":"","vs":[],"k":0},'
              '"ret":{"k":"crash","i":0,"s":"corrupt-record"},"obs":[],"prims":[],"allocs":[],"gm":0,"te":0}\n{"e":"abort"}\n')


def sanitize_trace(trace):
    """A recording whose bytes are not well formed (the implementation corrupted the recorder's memory) is turned into
    a crash of that execution: the malformed line and the rest of its execution are replaced by a crash event."""
    bad = False
    with open(trace, 'rb') as f:
        for raw in f:
            try:
                ln = raw.decode('utf-8')
            except UnicodeDecodeError:
                bad = True
                break
            if not (ln.startswith('{"e":') and ln.rstrip('\n').endswith('}')):
                bad = True
                break
    if not bad:
        return 0
    fixed = 0
    tmp = trace + '.san'
    with open(trace, 'rb') as f, open(tmp, 'w') as out:
        skipping = False
        for raw in f:
            try:
                ln = raw.decode('utf-8')
                ok = ln.startswith('{"e":') and ln.rstrip('\n').endswith('}')
                if ok:
                    json.loads(ln)
            except (UnicodeDecodeError, ValueError):
                ok = False
            if skipping:
                if ok and (ln.startswith('{"e":"reset"') or ln.startswith('{"e":"abort"')):
                    skipping = False
                continue
            if ok:
                out.write(ln)
            else:
                out.write(CRASH_LINE)
                fixed += 1
                skipping = True
    os.replace(tmp, trace)
    return fixed


def split_trace(trace, max_lines=25000, max_bytes=24000000):
    """Split a recording at execution boundaries into chunks that TLC validates independently (each chunk starts with
    the config line).  Returns [(path, offset)] where offset + line-in-chunk - 1 = line in the original file."""
    parts = []
    with open(trace) as f:
        cfg = f.readline()
        cur = None
        n = 0
        lineno = 1
        idx = 0
        for line in f:
            lineno += 1
            if cur is None:
                path = '%s.part%d' % (trace, idx)
                idx += 1
                cur = open(path, 'w')
                cur.write(cfg)
                parts.append((path, lineno - 2))
                n = 0
                nbytes = 0
            cur.write(line)
            n += 1
            nbytes += len(line)
            if (n >= max_lines or nbytes >= max_bytes) and (line.startswith('{"e":"reset"') or line.startswith('{"e":"abort"')):
                cur.close()
                cur = None
        if cur is not None:
            cur.close()
    return parts


def validate_split(cwd, module, cfg, trace, max_lines=25000, workers=4, timeout=3600):
    """validate() over chunks of the trace, merged: line numbers refer to the original file, stats are summed"""
    sanitize_trace(trace)
    parts = split_trace(trace, max_lines)

    def one(po):
        path, off = po
        r = validate(cwd, module, cfg, path, timeout=timeout, heap='4g')
        for v in r['viol']:
            v['l'] += off
        if r.get('rejected_at'):
            r['rejected_at'] += off
        r['_off'] = off
        return r
    rs = pmap(one, parts, workers=workers)
    out = {'consumed': 1, 'lines': 1, 'wall': 0.0, 'viol': [], 'stats': {}, 'rc': 0, 'parts': len(parts)}
    for r in rs:
        out['consumed'] += r['consumed'] - 1
        out['lines'] += r['lines'] - 1
        out['wall'] = max(out['wall'], r['wall'])
        out['viol'] += r['viol']
        for k, v in r['stats'].items():
            if isinstance(v, list):
                out['stats'][k] = out['stats'].get(k, []) + [x + off for x, off in zip(v, [r.get('_off', 0)] * len(v))]
            else:
                out['stats'][k] = out['stats'].get(k, 0) + v
        if r.get('rejected_at') and 'rejected_at' not in out:
            out['rejected_at'] = r['rejected_at']
            out['tlc_tail'] = r.get('tlc_tail')
    for path, _ in parts:
        try:
            os.remove(path)
        except OSError:
            pass
    return out


def pmap_proc(fn, items, workers=None):
    """like pmap but in processes (python-heavy work); a worker that dies is an error, not a hang"""
    from concurrent.futures import ProcessPoolExecutor
    import multiprocessing as mp
    if not items:
        return []
    with ProcessPoolExecutor(max_workers=min(workers or NCPU, len(items)), mp_context=mp.get_context('fork')) as ex:
        return list(ex.map(fn, items))


def pmap(fn, items, workers=None):
    with ThreadPoolExecutor(max_workers=workers or NCPU) as ex:
        return list(ex.map(fn, items))
